"""C06 -- resources never exceed capacity, grant in queue order, never idle a slot.

Monitors (DESIGN.md 4/C06): shadow of every request (rank, state) kept by the harness wrappers;
`users` (public) diffed after every harness op and after every kernel step (I1 post hook) to
see grants and evictions at the moment they happen; capacity invariant at every step; grant
order at each grant; no-idle-slot at every clock advance (I1 advance hook) and at the end;
preemption decision and the Preempted cause received by the victim.
"""
from vlib import kern

PID = "C06"
LEVEL = "exploration"
ANCHORS = ["onl/sim/resources/resource.py", "onl/sim/resources/base.py"]
RULE = ("random histories on Resource / PriorityResource / PreemptiveResource (capacity 1-4, 1-8 processes, each "
        "looping request -> (wait with patience | cancel | poked while waiting) -> hold -> release (sometimes twice "
        "/ by a non-user), plain and context-manager form, priorities from a 3-value set, preempt flags, grid "
        "times so requests, releases and cancels coincide); non-trivial = queue length reached >= 2 and (for "
        "PreemptiveResource) >= 1 eviction and >= 1 refused eviction; distinct by case hash")
ASSUMPTIONS = ["each process holds or awaits at most one request per resource at a time and never dies holding a slot (the quantifier)",
               "the positive preemption expectation (must evict) is asserted only when the preempting request is at the head of the queue"]
FLOORS = {"quick": {"grants": 20000, "advance_checks": 20000, "evictions": 500, "refused_evictions": 500,
                    "cancels_waiting": 1000, "cancel_noop_granted": 20, "double_releases": 500,
                    "nonuser_releases": 300, "with_exits": 2000, "preempted_causes_checked": 500,
                    "grants_with_others_waiting": 3000, "evictions_among_equal_keys": 30},
          "thorough": {"grants": 400000, "advance_checks": 400000, "evictions": 10000, "refused_evictions": 10000,
                       "cancels_waiting": 20000, "cancel_noop_granted": 400, "double_releases": 10000,
                       "nonuser_releases": 6000, "with_exits": 40000, "preempted_causes_checked": 10000,
                       "grants_with_others_waiting": 60000, "evictions_among_equal_keys": 600}}
# floors for the situations added with the later rounds of seeded changes (evidence that they were really exercised)
FLOORS["quick"].update({'releases_by_another_process': 1200, 'releases_through_another_resource': 1200})
FLOORS["thorough"].update({'releases_by_another_process': 6000, 'releases_through_another_resource': 6000})
FLOORS["quick"].update({'requests_refused_queue_full': 500, 'with_exits_by_base_exception': 3000})
FLOORS["thorough"].update({'requests_refused_queue_full': 2500, 'with_exits_by_base_exception': 15000})
GRID = [0, 0, 1, 1, 2, 3, 0.5, 3e-10, 5e-10]        # incl. distinct instants closer than any "rounding" grid


def plan(tier):
    return {"shards": 4, "timeout": 600} if tier == "quick" else {"shards": 16, "timeout": 3400}


def ncases(tier):
    return 5000 if tier == "quick" else 60000


def gen_case(rng):
    kind = rng.choice(["Resource", "PriorityResource", "PreemptiveResource", "PreemptiveResource"])
    nproc = rng.randint(1, 8)
    procs = []
    for _ in range(nproc):
        its = []
        for _ in range(rng.randint(1, 5)):
            its.append({
                "delay": rng.choice(GRID),
                "prio": rng.choice([0, 1, 2]),
                "preempt": rng.random() < 0.6,
                "form": rng.choice(["plain", "with"]),
                "patience": rng.choice([None, None, 0, 1, 2]),
                "hold": rng.choice([0, 1, 1, 2, 3, 0.5]),
                "double": rng.random() < 0.15,
                "release_after_preempt": rng.random() < 0.5,
                "exit_exc": rng.random() < 0.15,       # the with-block is left by a BaseException-only exception
            })
        procs.append(its)
    pokes = [[rng.choice([0.5, 1, 2, 3, 4, 5, 6]), rng.randrange(nproc)] for _ in range(rng.randint(0, 4))]
    rogue = [[rng.choice([1, 2, 3, 4]), rng.randrange(nproc), rng.choice(["nonuser", "nonuser", "holder", "wrong-resource"])]
             for _ in range(rng.randint(0, 3))]
    case = {"kind": kind, "capacity": rng.randint(1, 4), "procs": procs, "pokes": sorted(pokes), "rogue": sorted(rogue)}
    if kind != "Resource" and rng.random() < 0.12:
        case["queue_maxlen"] = rng.choice([1, 2, 3])       # a bounded request queue: a request beyond it is refused
    return case


class Shadow:
    def __init__(self, res, kind, cap, viol, stats, env):
        self.res, self.kind, self.cap, self.viol, self.stats, self.env = res, kind, cap, viol, stats, env
        self.reqs = {}        # id(req) -> record
        self.keep = []
        self.seq = 0
        self.seen_users = []  # ids, as last seen
        self.maxq = 0

    def bad(self, mech, what, wit=None):
        if len(self.viol) < 4:
            self.viol.append((mech, what, wit))

    def rank(self, rec):
        if self.kind == "Resource":
            return (rec["seq"],)
        return (rec["prio"], rec["time"], not rec["preempt"], rec["seq"])

    def key(self, rec):
        return (rec["prio"], rec["time"], not rec["preempt"])

    def new(self, req, pid, prio, preempt, proc):
        self.seq += 1
        rec = {"seq": self.seq, "pid": pid, "prio": prio, "preempt": preempt, "time": self.env.now,
               "state": "waiting", "proc": proc, "grant_time": None, "req": req, "evicted": False}
        self.reqs[id(req)] = rec
        self.keep.append(req)
        return rec

    def waiting(self):
        return [r for r in self.reqs.values() if r["state"] == "waiting"]

    def sync(self, where):
        """diff the public `users` against what was seen last: grants and evictions"""
        res = self.res
        users = list(res.users)
        if res.count != len(users):
            self.bad("count-not-len-users", "count differs from len(users)", where)
        if len(users) > self.cap:
            self.bad("capacity-exceeded", "a resource had more users than its capacity",
                     {"where": where, "users": len(users), "capacity": self.cap})
        self.stats["capacity_checks"] += 1
        now_ids = [id(u) for u in users]
        before = self.seen_users
        if now_ids == before:
            return
        bset, nset = set(before), set(now_ids)
        granted = [self.reqs[i] for i in now_ids if i not in bset and i in self.reqs]
        gone = [self.reqs[i] for i in before if i not in nset and i in self.reqs]
        for i in now_ids:
            if i not in self.reqs:
                self.bad("unknown-user", "users contains a request nobody issued", where)
        for g in granted:
            if g["state"] != "waiting":
                self.bad("granted-twice-or-after-cancel", "a request that was not waiting became a user",
                         {"state": g["state"], "where": where})
            g["state"] = "granted"
            g["grant_time"] = self.env.now
            self.stats["grants"] += 1
        still_waiting = self.waiting()
        if still_waiting:
            self.maxq = max(self.maxq, len(still_waiting))
        for g in granted:
            if still_waiting:
                self.stats["grants_with_others_waiting"] += 1
            for w in still_waiting:
                if self.rank(w) < self.rank(g):
                    self.bad("granted-ahead-of-earlier-ranked", "a later-ranked request was granted while an earlier-ranked one waits",
                             {"granted": self.rank(g), "waiting": self.rank(w), "kind": self.kind, "where": where})
        stayed = [self.reqs[i] for i in now_ids if i in bset and i in self.reqs]
        for v in gone:
            if v["state"] == "released":
                continue
            # eviction
            v["state"] = "evicted"
            v["evicted"] = True
            v["evict_time"] = self.env.now
            self.stats["evictions"] += 1
            if self.kind != "PreemptiveResource":
                self.bad("eviction-in-non-preemptive", "a user lost its slot without releasing it in a non-preemptive resource", where)
                continue
            for u in stayed:
                # worst-ranked by (priority, request time, preempting-first, arrival): among users
                # with equal keys the latest arrival is the worst
                if self.rank(u) > self.rank(v):
                    self.bad("evicted-not-the-worst", "the evicted user was not the worst-ranked current user",
                             {"victim": self.rank(v), "kept": self.rank(u)})
                if self.key(u) == self.key(v):
                    self.stats["evictions_among_equal_keys"] += 1
            v["stayed_keys"] = [self.key(u) for u in stayed]
            v["granted_then"] = granted
        self.seen_users = now_ids

    def quiescent(self, env):
        """clock about to advance (or agenda empty)"""
        self.sync("advance")
        self.stats["advance_checks"] += 1
        w = self.waiting()
        if w and len(self.res.users) < self.cap:
            self.bad("slot-idle-with-waiter", "the clock advanced while a request waited and a slot was free",
                     {"now": env.now, "waiting": len(w), "users": len(self.res.users), "capacity": self.cap, "kind": self.kind})


def run_case(case, stats):
    K = kern.RealK.load()
    from onl.sim import Resource, PriorityResource, PreemptiveResource, Interrupt
    from onl.sim.resources.resource import Preempted
    Env = kern.make_monenv(K.Environment)
    env = Env()
    kind, cap = case["kind"], case["capacity"]
    res = {"Resource": Resource, "PriorityResource": PriorityResource, "PreemptiveResource": PreemptiveResource}[kind](env, cap)
    if "queue_maxlen" in case:
        res.put_queue.maxlen = case["queue_maxlen"]
        stats["bounded_queue_cases"] += 1
    other = type(res)(env, 1)          # a second resource of the same class that nobody requests
    viol = []
    sh = Shadow(res, kind, cap, viol, stats, env)
    env.post_hooks.append(lambda e: sh.sync("step"))
    env.advance_hooks.append(sh.quiescent)
    procs = []
    log = []

    def wait(ev, pid=None):
        try:
            v = yield ev
            return ("ok", v)
        except Interrupt as it:
            if isinstance(it.cause, Preempted) and pid is not None:
                sh.sync("preempted")
                mine = [r for r in sh.reqs.values() if r["pid"] == pid and r["evicted"] and not r.get("notified")]
                if not mine:
                    sh.bad("preempted-cause-without-eviction", "a process got Preempted although none of its requests was evicted", pid)
                else:
                    check_preempted(mine[-1], it.cause, pid)
                    mine[-1]["notified"] = True
            return ("int", it.cause)

    def check_preempted(rec, cause, pid):
        stats["preempted_causes_checked"] += 1
        if not isinstance(cause, Preempted):
            sh.bad("evicted-without-preempted-cause", "an evicted process did not receive Interrupt(Preempted(...))", repr(cause))
            return
        if cause.resource is not res:
            sh.bad("preempted-wrong-resource", "Preempted.resource is not the resource", pid)
        if cause.usage_since != rec["grant_time"]:
            sh.bad("preempted-wrong-usage-since", "Preempted.usage_since is not the victim's grant time",
                   {"got": cause.usage_since, "grant_time": rec["grant_time"]})
        by = [r for r in sh.reqs.values() if r["proc"] is cause.by]
        if cause.by is None or not by:
            sh.bad("preempted-wrong-by", "Preempted.by is not a requesting process", pid)
            return
        # the preemptor: a preempting request of that process, strictly better than the victim, now a user
        cands = [r for r in by if r["preempt"] and r.get("grant_time") == rec.get("evict_time")]
        if not cands:
            sh.bad("preemptor-did-not-get-slot", "the slot of the evicted user did not go to the preemptor",
                   {"victim_pid": pid})
            return
        p = cands[-1]
        if not (sh.key(rec) > sh.key(p)):
            sh.bad("evicted-not-strictly-worse", "a user was evicted although it does not rank strictly worse than the preemptor",
                   {"victim": sh.key(rec), "preemptor": sh.key(p)})

    end_time = {}

    def user(pid, its):
        try:
            yield from user_body(pid, its)
        finally:
            end_time[pid] = env.now

    def user_body(pid, its):
        me = procs[pid]
        for it in its:
            r = yield from wait(env.timeout(it["delay"]), pid)
            # (a poke or a late Preempted during the start delay is simply absorbed)
            sh.sync("pre-request")
            users_before = [sh.reqs[i] for i in sh.seen_users]
            full = len(res.users) >= cap
            qlen0 = len(res.queue)
            try:
                if kind == "Resource":
                    req = res.request()
                else:
                    req = res.request(priority=it["prio"], preempt=it["preempt"])
            except RuntimeError as e:
                if "queue_maxlen" not in case or qlen0 < case["queue_maxlen"]:
                    sh.bad("request-raised", "request() raised although the request queue is not bounded / not full", repr(e)[:100])
                    return
                stats["requests_refused_queue_full"] += 1
                if len(res.queue) != qlen0:
                    sh.bad("refused-request-left-in-queue", "a request refused because the queue is full stayed in the queue", len(res.queue))
                sh.sync("refused")
                continue
            rec = sh.new(req, pid, it["prio"] if kind != "Resource" else 0, it["preempt"] if kind != "Resource" else False, me)
            if it["form"] == "with":
                req.__enter__()
            head = not any(sh.rank(w) < sh.rank(rec) for w in sh.waiting() if w is not rec)
            ev0 = stats["evictions"]
            sh.sync("request")
            if kind == "PreemptiveResource" and full and rec["preempt"] and users_before:
                worst = max(users_before, key=sh.key)
                if sh.key(worst) > sh.key(rec):
                    if head and stats["evictions"] == ev0:
                        sh.bad("no-eviction-when-strictly-worse", "a preempting head request did not evict a strictly worse-ranked user",
                               {"worst": sh.key(worst), "req": sh.key(rec)})
                    elif head and rec["state"] != "granted":
                        sh.bad("preemptor-did-not-get-slot", "the slot of the evicted user did not go to the preemptor", sh.key(rec))
                else:
                    stats["refused_evictions"] += 1
                    if rec["state"] == "granted":
                        sh.bad("evicted-not-strictly-worse", "a preempting request obtained a slot of a full resource whose worst user does not rank strictly worse",
                               {"worst": sh.key(worst), "req": sh.key(rec)})
            if it["patience"] is None:
                r = yield from wait(req, pid)
            else:
                r = yield from wait(req | env.timeout(it["patience"]), pid)
            sh.sync("after-wait")
            if not req.triggered:
                # give up while still waiting (timed out or poked)
                if it["form"] == "with":
                    req.__exit__(None, None, None)
                    stats["with_exits"] += 1
                else:
                    req.cancel()
                if req.triggered:
                    sh.bad("cancel-triggered-request", "cancel() of a waiting request triggered it", pid)
                rec["state"] = "cancelled"
                stats["cancels_waiting"] += 1
                if req in res.queue:
                    sh.bad("cancelled-request-still-queued", "a cancelled request is still in the queue", pid)
                sh.sync("cancel")
                continue
            if r[0] == "int" or (it["patience"] is not None and not req.processed):
                # woke by timeout/poke although the request was granted in this very instant:
                # cancel() is a no-op then, the slot is ours and must be released
                req.cancel()
                stats["cancel_noop_granted"] += 1
                if rec["state"] == "waiting" or (rec["state"] == "granted" and req not in res.users):
                    sh.bad("triggered-request-not-user", "a triggered request is not among the users", pid)
            # hold
            preempted = rec["evicted"]
            if rec["state"] == "granted":
                r = yield from wait(env.timeout(it["hold"]), pid)
                sh.sync("after-hold")
                preempted = rec["evicted"]
            # release
            if preempted and not it["release_after_preempt"] and it["form"] != "with":
                continue
            users0 = list(res.users)
            if rec["state"] == "granted":
                rec["state"] = "released"
            if it["form"] == "with":
                if it.get("exit_exc"):
                    # left by an exception that is no Exception subclass (a control-flow signal caught further out):
                    # a context-manager exit like any other
                    req.__exit__(kern.Crit, kern.Crit("leave"), None)
                    stats["with_exits_by_base_exception"] += 1
                else:
                    req.__exit__(None, None, None)
                stats["with_exits"] += 1
            else:
                res.release(req)
            if preempted:
                stats["nonuser_releases"] += 1
                if list(res.users) != users0:
                    sh.bad("nonuser-release-changed-users", "releasing a request that is not a user changed the users", pid)
            if req in res.users:
                sh.bad("released-request-still-user", "a released request is still a user", pid)
            sh.sync("release")
            if it["double"]:
                users1 = list(res.users)
                try:
                    res.release(req)
                except Exception as e:
                    sh.bad("double-release-raised", "releasing twice raised", repr(e))
                stats["double_releases"] += 1
                if list(res.users) != users1:
                    sh.bad("double-release-changed-users", "a second release changed the users", pid)
                sh.sync("double-release")

    def poker():
        last = 0
        for t, pid in case["pokes"]:
            if t > last:
                yield env.timeout(t - last)
                last = t
            p = procs[pid]
            if p.is_alive and p is not env.active_process:
                try:
                    p.interrupt("poke")
                    stats["pokes"] += 1
                except RuntimeError:
                    pass

    def rogue():
        # a process that releases other people's (possibly waiting) requests: "releasing a non-user is harmless"
        last = 0
        for ent in case["rogue"]:
            t, pid = ent[0], ent[1]
            mode = ent[2] if len(ent) > 2 else "nonuser"
            if t > last:
                yield env.timeout(t - last)
                last = t
            sh.sync("pre-rogue")
            if mode != "nonuser":
                cands = [r for r in sh.reqs.values() if r["state"] == "granted" and not r["evicted"] and r["req"] in res.users]
                if not cands:
                    continue
                rec = cands[pid % len(cands)]
                users0 = list(res.users)
                if mode == "wrong-resource":
                    # released through ANOTHER resource object: the request is not a user there -> harmless, and
                    # certainly without any effect on the resource that granted it
                    try:
                        other.release(rec["req"])
                    except Exception as e:
                        sh.bad("nonuser-release-raised", "releasing a non-user raised", repr(e))
                    stats["releases_through_another_resource"] += 1
                    if list(res.users) != users0 or other.users:
                        sh.bad("nonuser-release-changed-users[through-another-resource]",
                               "releasing a request through a resource it does not use changed the users of a resource", rec["state"])
                else:
                    # a supervisor releases the slot on behalf of its holder: a release like any other -- the slot
                    # passes to the next waiter within the same instant (checked by sync / the advance hook)
                    rec["state"] = "released"
                    try:
                        res.release(rec["req"])
                    except Exception as e:
                        sh.bad("release-raised", "releasing a user's request from another process raised", repr(e))
                    stats["releases_by_another_process"] += 1
                    if rec["req"] in res.users:
                        sh.bad("released-request-still-user", "a released request is still a user", "released by another process")
                sh.sync("rogue")
                continue
            cands = [r for r in sh.reqs.values() if r["state"] in ("waiting", "cancelled", "released", "evicted")]
            if not cands:
                continue
            rec = cands[pid % len(cands)]
            users0 = list(res.users)
            try:
                res.release(rec["req"])
            except Exception as e:
                sh.bad("nonuser-release-raised", "releasing a non-user raised", repr(e))
            stats["nonuser_releases"] += 1
            if list(res.users) != users0:
                sh.bad("nonuser-release-changed-users", "releasing a request that is not a user changed the users", rec["state"])
            sh.sync("rogue")

    for pid, its in enumerate(case["procs"]):
        procs.append(None)
        procs[pid] = env.process(user(pid, its))
    env.process(poker())
    env.process(rogue())
    try:
        env.run()
    except Exception as e:
        import traceback
        tb = traceback.extract_tb(e.__traceback__)
        where = next((f"{f.filename.split('/onl/')[-1]}:{f.name}" for f in reversed(tb) if "/onl/" in f.filename), "harness")
        viol.append((f"exception:{type(e).__name__}@{where}", "the run raised", repr(e)[:300]))
    sh.quiescent(env)
    # every eviction must have been notified
    for rec in sh.reqs.values():
        if rec["evicted"] and not rec.get("notified") and \
                not (rec["pid"] in end_time and end_time[rec["pid"]] == rec["evict_time"]):
            # (a victim that ended in the very instant of the eviction -- e.g. poked first -- has
            # its pending interrupt discarded, which C04 allows)
            sh.bad("evicted-never-notified", "an evicted process never received the Preempted interrupt", rec["pid"])
        if rec["state"] == "waiting":
            sh.bad("request-never-granted", "at the end of the run a request is still waiting", sh.rank(rec))
    stats["max_queue"] = max(stats["max_queue"], sh.maxq)
    return viol, sh


KEYS = ("grants", "advance_checks", "evictions", "refused_evictions", "cancels_waiting", "cancel_noop_granted",
        "double_releases", "nonuser_releases", "with_exits", "preempted_causes_checked", "capacity_checks",
        "grants_with_others_waiting", "pokes", "evictions_among_equal_keys", "releases_by_another_process",
        "releases_through_another_resource", "requests_refused_queue_full", "with_exits_by_base_exception", "bounded_queue_cases")


def one_case(ctx, case):
    import collections
    stats = collections.Counter({k: 0 for k in KEYS})
    stats["max_queue"] = 0
    viol, sh = run_case(case, stats)
    for k in KEYS:
        ctx.count(k, stats[k])
    ctx.count("kind_" + case["kind"])
    ctx.peak("max_queue", stats["max_queue"])
    nt = sh.maxq >= 2 and (case["kind"] != "PreemptiveResource" or (stats["evictions"] >= 1 and stats["refused_evictions"] >= 1))
    return viol, nt


def gen_nested(rng):
    return {"nested": True, "outer": rng.choice(["Resource", "PriorityResource", "PreemptiveResource"]),
            "outer_cap": rng.randint(1, 2), "nproc": rng.randint(2, 6),
            "procs": [[{"delay": rng.choice([0, 0, 1, 2, 0.5]), "prio": rng.choice([0, 1, 2, 3]), "hold": rng.choice([1, 2, 3]),
                        "catch_inside": rng.random() < 0.3} for _ in range(rng.randint(1, 4))] for _ in range(6)]}


def run_nested(case, stats):
    """one process holds two resources in nested with-blocks; the inner one is preemptive and the Interrupt
    propagates out of both blocks: every context-manager exit must hand its slot on"""
    K = kern.RealK.load()
    from onl.sim import Resource, PriorityResource, PreemptiveResource, Interrupt
    Env = kern.make_monenv(K.Environment)
    env = Env()
    outer = {"Resource": Resource, "PriorityResource": PriorityResource, "PreemptiveResource": PreemptiveResource}[case["outer"]](env, case["outer_cap"])
    inner = PreemptiveResource(env, 1)
    viol = []

    def bad(m, what, wit=None):
        if len(viol) < 3:
            viol.append((m, what, wit))

    def quiescent(e):
        stats["advance_checks"] += 1
        for name, res in (("outer", outer), ("inner", inner)):
            if res.count > res.capacity:
                bad("capacity-exceeded", "a resource had more users than its capacity", name)
            if len(res.queue) > 0 and res.count < res.capacity:
                bad(f"slot-idle-with-waiter[nested,{name}]", "the clock advanced while a request waited and a slot was free "
                    "(a with-block left by an Interrupt did not hand its slot on)",
                    {"now": e.now, "resource": name, "kind": type(res).__name__, "waiting": len(res.queue), "users": res.count})

    env.advance_hooks.append(quiescent)

    def user(pid, its):
        for it in its:
            yield env.timeout(it["delay"])
            try:
                with (outer.request() if case["outer"] == "Resource" else outer.request(priority=1, preempt=False)) as ro:
                    yield ro
                    if it["catch_inside"]:
                        try:
                            with inner.request(priority=it["prio"]) as ri:
                                yield ri
                                yield env.timeout(it["hold"])
                        except Interrupt:
                            stats["nested_preemptions"] += 1
                    else:
                        with inner.request(priority=it["prio"]) as ri:
                            yield ri
                            yield env.timeout(it["hold"])
            except Interrupt:
                stats["nested_preemptions"] += 1
                stats["nested_interrupt_through_both_blocks"] += 1

    for pid in range(case["nproc"]):
        env.process(user(pid, case["procs"][pid]))
    try:
        env.run()
    except Exception as e:
        bad(f"exception:{type(e).__name__}@nested", "the run raised", repr(e)[:200])
    quiescent(env)
    if outer.count or inner.count or outer.queue or inner.queue:
        bad("slot-leaked[nested]", "after all processes finished a resource still has users or waiters",
            {"outer_users": outer.count, "inner_users": inner.count, "outer_waiting": len(outer.queue), "kind": case["outer"]})
    stats["nested_cases"] += 1
    return viol


def run_shard(ctx):
    import collections
    nst = collections.Counter()
    for j in range(60 if ctx.tier == "quick" else 1500):
        case = gen_nested(ctx.rng("nested", j))
        for m, what, wit in run_nested(case, nst):
            ctx.violation(m, what, wit, case)
        ctx.case_done(case, nst["nested_interrupt_through_both_blocks"] > 0)
    for k in ("nested_cases", "nested_preemptions", "nested_interrupt_through_both_blocks"):
        ctx.count(k, nst[k])
    ctx.count("advance_checks", nst["advance_checks"])
    for i in ctx.cases(ncases(ctx.tier)):
        case = gen_case(ctx.rng(i))
        viol, nt = one_case(ctx, case)
        for m, what, wit in viol:
            ctx.violation(m, what, wit, case)
        ctx.case_done(case, nt)


def replay(ctx, case):
    if case.get("nested"):
        import collections
        for m, what, wit in run_nested(case, collections.Counter()):
            ctx.violation(m, what, wit, case)
        return
    viol, _ = one_case(ctx, case)
    for m, what, wit in viol:
        ctx.violation(m, what, wit, case)
