"""C02 -- every waiter gets an event's outcome exactly once; failures are never lost.

Monitors: waiter ledger (registered -> invoked exactly once, in registration order, with the
event's own outcome), resumption-source check, double-trigger probe, escape-of-failure check on
run(), process value/ok at termination, spec-kernel tape equality.
"""
from vlib import kern, speckernel

PID = "C02"
LEVEL = "exploration"
ANCHORS = ["onl/sim/events.py", "onl/sim/core.py"]
RULE = ("random process programs (value-carrying timeouts, shared events succeeded/failed by other processes, "
        "1-5 waiters per event mixing processes and plain callbacks, joins on children that return or raise, "
        "catching and non-catching waiters, double-trigger attempts, yields of processed events, a few "
        "interrupts); non-trivial = the execution had an event with >=2 waiters AND a failed event; distinct by "
        "program hash")
ASSUMPTIONS = ["waiters are identified at the harness boundary: a process logging 'about to yield E' while E is "
               "unprocessed, or a harness callback appended to E"]
FLOORS = {"quick": {"waiter_invocations": 20000, "multi_waiter_events": 1500, "failed_events": 1500,
                    "escapes_matched": 300, "double_triggers": 1000, "imm_resumes": 1000, "spec_compared": 1000},
          "thorough": {"waiter_invocations": 400000, "multi_waiter_events": 30000, "failed_events": 30000,
                       "escapes_matched": 6000, "double_triggers": 20000, "imm_resumes": 20000,
                       "spec_compared": 20000}}
# floors for the situations added with the later rounds of seeded changes (evidence that they were really exercised)
FLOORS["quick"].update({'chained_triggers_fired': 300, 'succeed_with_equal_to_everything_value': 900})
FLOORS["thorough"].update({'chained_triggers_fired': 1500, 'succeed_with_equal_to_everything_value': 4500})
FLOORS["quick"].update({'rational_clock_programs': 150, 'succeed_with_mutable_list_value': 500, 'second_triggers_on_ended_processes': 300})
FLOORS["thorough"].update({'rational_clock_programs': 750, 'succeed_with_mutable_list_value': 2500, 'second_triggers_on_ended_processes': 1500})
PROFILE = {"weights": {"timeout": 4, "zero": 1, "wait": 5, "succeed": 3, "fail": 2, "spawn": 2, "join": 3,
                       "interrupt": 0.7, "cb": 2, "cond": 1.2, "chain": 0.9, "cbint": 0.2, "ptrigger": 0.6},
           "max_top": 6, "max_child_scripts": 3, "min_ev": 1, "max_ev": 3, "p_exact": 0.85, "p_raise": 0.2,
           "p_catch": 0.6, "p_rational": 0.03, "p_inf_delay": 0.004}
KEYS = ("waiter_invocations", "multi_waiter_events", "failed_events", "escapes_matched", "double_triggers",
        "imm_resumes", "source_checks", "same_instant_groups")


def plan(tier):
    return {"shards": 4, "timeout": 300} if tier == "quick" else {"shards": 16, "timeout": 3400}


def ncases(tier):
    return 8000 if tier == "quick" else 80000


def one_case(ctx, prog):
    K = kern.RealK.load()
    mon = kern.Monitor(agenda=False, waiters=True, interrupts=False)
    r = kern.run_on(K, prog, mon=mon)
    viol = list(mon.finish())
    kern.count_extras(ctx, r)
    sr = kern.run_on(speckernel.K, prog)
    ctx.count("spec_compared")
    viol += kern.spec_violation(r, sr)
    for k in KEYS:
        ctx.count(k, mon.n[k])
    ctx.count("tape_entries", len(r.tape))
    return viol, mon.n["multi_waiter_events"] >= 1 and mon.n["failed_events"] >= 1


def run_shard(ctx):
    for i in ctx.cases(ncases(ctx.tier)):
        case = {"program": kern.gen_program(ctx.rng(i), PROFILE)}
        viol, nt = one_case(ctx, case["program"])
        if i % 4 == 0:
            bv, n = kern.bare_spec_violation(case["program"])
            viol += bv
            ctx.count("bare_runs_compared")
        for m, what, wit in viol:
            ctx.violation(m, what, wit, case)
        ctx.case_done(case, nt)


def replay(ctx, case):
    viol, _ = one_case(ctx, case["program"])
    viol += kern.bare_spec_violation(case["program"])[0]
    for m, what, wit in viol:
        ctx.violation(m, what, wit, case)
