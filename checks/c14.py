"""C14 -- WFQ and VirtualClock transmit in virtual-finish-stamp order.

Monitor: the stamps are recomputed from the observed arrival / departure history (V, F and auxVC
recurrences of the statement); at each service decision the decided packet's stamp must be
minimal among the waiting ones (earlier arrival *time* on equal stamps; equal (stamp, time) is
free).  An arrival in the very instant of the departure that emptied WFQ forks the reference into
"reset seen" / "reset not yet seen" (I12); a violation needs every world to be contradicted.
Static backlogs: normalised service of two still-backlogged WFQ classes never differs by more than
one maximum-size packet each.  Plus the C12 time rules.
"""
from vlib import sched as vs
from checks import c12

PID = "C14"
LEVEL = "exploration"
ANCHORS = ["onl/scheduler/wfq.py", "onl/scheduler/virtual_clock.py", "onl/sim/resources/store.py"]
RULE = ("WFQ and VC x weight / vtick tables (non-integers, equal weights and sizes so stamps tie across classes) x "
        "identity / injective / many-to-one class maps x workloads (static backlogs, staggered starts, idle periods that "
        "reset virtual time, arrivals exactly at transmission ends); non-trivial = >= 5 decisions with >= 2 classes "
        "waiting, and (WFQ) a busy period that started after a reset or (VC) an equal-stamp decision; distinct by case hash")
ASSUMPTIONS = ["stamps are recomputed by the reference, not read from the scheduler",
               "on decimal workloads stamps closer than 1e-9 relative are treated as equal and impose no order",
               "the tie rule (earlier arrival time) is enforced only on dyadic workloads where equality is exact"]
FLOORS = {"quick": {"decisions": 30000, "decisions_multi_class": 8000, "equal_stamp_decisions": 500, "resets": 3000,
                    "reset_forks": 50, "first_of_busy_period_stamped": 3000, "fairness_checks": 3000,
                    "kind_WFQ": 300, "kind_VC": 300, "many_to_one_cases": 100},
          "thorough": {"decisions": 600000, "decisions_multi_class": 160000, "equal_stamp_decisions": 10000,
                       "resets": 60000, "reset_forks": 1000, "first_of_busy_period_stamped": 60000,
                       "fairness_checks": 60000, "kind_WFQ": 6000, "kind_VC": 6000, "many_to_one_cases": 2000}}
KEYS = tuple(FLOORS["quick"].keys()) + ("back_to_back", "idle_then_arrival", "arrival_at_tx_end",
                                         "arrival_at_tx_end_after_departure", "worlds_dropped", "arrived_between_pick_and_start", "idle_reset_checks")
# floors for the situations added with the later rounds of seeded changes (evidence that they were really exercised)
FLOORS["quick"].update({'arrived_between_pick_and_start': 800, 'mixed_type_class_id_cases': 100})
FLOORS["thorough"].update({'arrived_between_pick_and_start': 4000, 'mixed_type_class_id_cases': 500})
FLOORS["quick"].update({'counter_polling_observer_cases': 280, 'tiny_weight_cases': 15})
FLOORS["thorough"].update({'counter_polling_observer_cases': 1400, 'tiny_weight_cases': 75})
FLOORS["quick"].update({'idle_reset_checks': 5000})
FLOORS["thorough"].update({'idle_reset_checks': 25000})


def plan(tier):
    return {"shards": 4, "timeout": 900} if tier == "quick" else {"shards": 16, "timeout": 3400}


def ncases(tier):
    return 1200 if tier == "quick" else 30000


def gen_case(rng, i):
    kind = "WFQ" if i % 2 == 0 else "VC"
    static = (i % 6 in (0, 1))
    case = vs.gen_case(rng, kind, n=rng.randint(6, 80), static=static, nflows=rng.randint(2, 6))
    return case


class World:
    __slots__ = ("V", "F", "last", "stamp")

    def __init__(self, classes):
        self.V, self.F, self.last, self.stamp = 0.0, {c: 0.0 for c in classes}, 0.0, {}

    def copy(self):
        w = World(())
        w.V, w.F, w.last, w.stamp = self.V, dict(self.F), self.last, dict(self.stamp)
        return w

    def reset(self):
        self.V = 0.0
        for c in self.F:
            self.F[c] = 0.0

    def key(self):
        return (self.V, tuple(sorted(self.F.items(), key=repr)), self.last, tuple(sorted(self.stamp.items(), key=repr)))


def stamp_rule(run, stats, bad):
    case = run.case
    cfg = case["cfg"]
    kind, rate, f2c, tbl = cfg["kind"], cfg["rate"], run.f2c, run.tbl
    exact = case["flavour"] == "exact"
    events = [(a[0], "in", a) for a in run.arr] + [(d[0], "dec", d) for d in run.dec] + [(d[0], "out", d) for d in run.dep]
    events.sort(key=lambda e: e[0])
    classes = list(tbl.keys())
    count = {c: 0 for c in classes}
    worlds = [World(classes)]
    emptied_at = None          # instant of the departure that emptied the system (WFQ fork)
    last_witness = None
    busy_first = True

    def strictly_less(a, b):
        if exact:
            return a < b
        return a < b - 1e-9 * max(1.0, abs(a), abs(b))

    sched_of = run.net.sched_of
    aseq = {}                  # uid -> kernel step of its arrival
    prev_dep = -1              # kernel step of the latest departure
    for sq, k, e in events:
        t, u, f, size = e[2], e[3], e[4], e[5]
        c = f2c(f)
        if k == "in":
            aseq[u] = e[1]           # kernel step of the arrival
            if kind == "VC":
                for w in worlds:
                    w.F[c] = max(t, w.F[c]) + tbl[c]
                    w.stamp[u] = (w.F[c], t)
            else:
                empty = not any(count.values())
                new = []
                for w in worlds:
                    if empty:
                        if emptied_at is not None and emptied_at == t:
                            alt = w.copy()                    # the scheduler has not noticed yet that it emptied
                            alt.F[c] = max(alt.F[c], alt.V) + size * 8.0 / (rate * tbl[c])
                            alt.stamp[u] = (alt.F[c], t)
                            alt.last = t
                            new.append(alt)
                            stats["reset_forks"] += 1
                        w.reset()
                        stats["resets"] += 1
                    else:
                        ws = 0.0
                        for cc in classes:
                            if count[cc]:
                                ws += tbl[cc]
                        w.V += (t - w.last) / ws
                    w.F[c] = max(w.F[c], w.V) + size * 8.0 / (rate * tbl[c])
                    w.stamp[u] = (w.F[c], t)
                    w.last = t
                    new.append(w)
                if empty:
                    stats["first_of_busy_period_stamped"] += 1
                worlds = new
                emptied_at = None
            count[c] += 1
        elif k == "dec":
            stats["decisions"] += 1
            waiting_classes = {f2c(run.net.pk.objs[v].flow_id) for v in worlds[0].stamp}
            if len(waiting_classes) >= 2:
                stats["decisions_multi_class"] += 1
            keep = []
            tie = False
            # The boundary sees the start of the transmission, not the moment the scheduler took the packet out of
            # its queue (a few kernel steps earlier in the same instant).  The scheduler resumes in a later kernel
            # step than the event that enabled the decision (the previous departure, or the arrival that ended the
            # idle period), so everything that had arrived up to and including that step was certainly in the queue.
            # A packet that arrived in a later step of the instant is counted, not judged (it is judged at the next decision).
            oldest = min(aseq[v] for v in worlds[0].stamp) if worlds[0].stamp else -1
            E = max(prev_dep, oldest)
            # (also certain: arrivals whose delivering event was scheduled before that step -- within one instant
            # events take effect in trigger order, and the scheduler's own resumption is triggered later)
            # -- but only when the decision follows a departure: after an idle period the pending get of the scheduler
            # takes the first packet in the very step of its arrival, so nothing that arrives later was in the queue
            busy = prev_dep >= oldest
            certain = {v for v in worlds[0].stamp if aseq[v] <= E or (busy and sched_of.get(v, aseq[v]) < E)}
            if len(certain) < len(worlds[0].stamp) - (0 if u in certain else 1):
                stats["arrived_between_pick_and_start"] += 1
            for w in worlds:
                if u not in w.stamp:
                    bad("decided-packet-not-waiting", "a packet was handed to transmission that was not waiting", u)
                    return
                su = w.stamp[u]
                ok = True
                for v, sv in w.stamp.items():
                    if v == u or v not in certain:
                        continue
                    if strictly_less(sv[0], su[0]):
                        ok = False
                        last_witness = {"served_stamp": su[0], "waiting_stamp": sv[0], "now": t, "kind": kind,
                                        "served_arrival": su[1], "waiting_arrival": sv[1]}
                        break
                    if sv[0] == su[0]:
                        tie = True
                        if exact and sv[1] < su[1]:
                            ok = False
                            last_witness = {"equal_stamp": su[0], "served_arrival": su[1], "waiting_arrival": sv[1],
                                            "now": t, "kind": kind}
                            break
                if ok:
                    del w.stamp[u]
                    keep.append(w)
                else:
                    stats["worlds_dropped"] += 1
            if tie:
                stats["equal_stamp_decisions"] += 1
            if not keep:
                mech = "equal-stamps-later-arrival-served-first" if last_witness and "equal_stamp" in last_witness \
                    else "served-packet-not-minimum-stamp"
                bad(f"{mech}[{kind}]", "the packet chosen for transmission does not carry the smallest virtual finish stamp among the waiting packets",
                    last_witness)
                return
            # dedupe
            seen, uniq = set(), []
            for w in keep:
                kk = w.key()
                if kk not in seen:
                    seen.add(kk)
                    uniq.append(w)
            worlds = uniq[:8]
        else:
            prev_dep = e[1]          # kernel step of the departure
            if kind == "WFQ":
                ws = 0.0
                for cc in classes:
                    if count[cc]:
                        ws += tbl[cc]
                for w in worlds:
                    if ws:
                        w.V += (t - w.last) / ws
                    w.last = t
            count[c] -= 1
            if kind == "WFQ" and not any(count.values()):
                emptied_at = t
    return


def fairness_rule(run, stats, bad):
    """static backlog: normalised service of two still-backlogged classes differs by at most one Lmax each"""
    cfg = run.case["cfg"]
    f2c, w = run.f2c, run.tbl
    left = {}
    Lmax = 0
    for a in run.arr:
        c = f2c(a[4])
        left[c] = left.get(c, 0) + 1
        Lmax = max(Lmax, a[5])
    S = {c: 0 for c in left}
    started = {d[3]: d for d in run.dec}
    for d in run.dep:
        c = f2c(d[4])
        S[c] += d[5]
        left[c] -= 1
        back = [x for x in left if left[x] > 0]
        for i in range(len(back)):
            for j in range(i + 1, len(back)):
                a, b = back[i], back[j]
                stats["fairness_checks"] += 1
                if abs(S[a] / w[a] - S[b] / w[b]) > Lmax / w[a] + Lmax / w[b] + 1e-6:
                    bad("static-backlog-fairness-bound-exceeded", "normalised service of two backlogged WFQ classes differs by more than one maximum-size packet each",
                        {"classes": [a, b], "service": [S[a], S[b]], "weights": [w[a], w[b]], "Lmax": Lmax})
                    return


def one_case(ctx, case):
    import collections
    stats = collections.Counter({k: 0 for k in KEYS})
    run = vs.Run(case, counters=False)
    cfg = case["cfg"]
    if cfg["kind"] == "WFQ":
        # "V and all F reset to 0 when the scheduler empties": read the public attributes whenever the clock is about to
        # advance while nothing is waiting or in transmission
        def idle_reset(env, run=run):
            if run.in_service is None and not any(run.shadow_n.values()) and run.dep:
                stats["idle_reset_checks"] += 1
                s = run.sched
                if s.vtime != 0 or any(v != 0 for v in s.finish_times.values()):
                    run.bad("virtual-time-not-reset-when-empty[WFQ]", "the scheduler is empty and the clock advances, but V / some F is not 0",
                            {"V": s.vtime, "F": {str(c): v for c, v in s.finish_times.items() if v}, "now": env.now})
        run.net.env.advance_hooks.append(idle_reset)
    run.go()
    vs.count_features(ctx, run)
    if not run.viol:
        c12.time_rules(run, stats, run.bad)
    if not run.viol:
        stamp_rule(run, stats, run.bad)
    if not run.viol and case["static"] and cfg["kind"] == "WFQ":
        fairness_rule(run, stats, run.bad)
    stats["kind_" + cfg["kind"]] += 1
    if len(cfg["classes"]) < len(cfg["flows"]):
        stats["many_to_one_cases"] += 1
    for k in KEYS:
        ctx.count(k, stats[k])
    nt = stats["decisions_multi_class"] >= 5 and (stats["first_of_busy_period_stamped"] >= 2 or stats["equal_stamp_decisions"] >= 1)
    return run.viol, nt


def run_shard(ctx):
    for i in ctx.cases(ncases(ctx.tier)):
        case = gen_case(ctx.rng(i), i)
        viol, nt = one_case(ctx, case)
        for m, what, wit in viol:
            ctx.violation(m, what, wit, case)
        ctx.case_done(case, nt)


def replay(ctx, case):
    viol, _ = one_case(ctx, case)
    for m, what, wit in viol:
        ctx.violation(m, what, wit, case)
