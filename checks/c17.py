"""C17 -- TCP sends only inside its window and adapts it by the Reno/CUBIC rules.

Monitor: a reference sender state machine written from the statement is stepped on the same
scripted history (new ACKs advancing by any number of segments with arbitrary RTT samples, runs of
duplicate ACKs, waits during which retransmission timers expire) that is fed straight into the
real sender's put(); after every event the public cwnd / ssthresh / rto / rtt_estimate /
est_deviation / next_seq / last_ack must equal one of the admissible reference states (a set:
after a run of only one or two duplicates both "deflate first" and "plain new ACK" are admissible).
Every segment the sender emits is checked at the tap: new segments are MSS-sized, consecutively
numbered and satisfy next_seq + MSS <= min(buffered data, last_ack + cwnd) at that moment;
retransmissions must be the ones the rules call for (third duplicate: the missing segment;
timeout: the expired segment, exactly at arm time + RTO, for unacknowledged segments only).
"""
from vlib import kern
from vlib import net as vnet

PID = "C17"
LEVEL = "exploration"
ANCHORS = ["onl/packet/tcp_generator.py"]
RULE = ("scripted histories of 10-300 events (new ACKs advancing by 1..k segments, duplicate runs of length 1-8, RTT "
        "samples from tiny to larger than the RTO, waits that let 0..n retransmission timers expire) fed into put(); "
        "TCPReno from random initial cwnd / ssthresh, TCPCubic from its defaults; non-trivial = the history contained a "
        "fast retransmit (>= 3 duplicates), a timeout, and new ACKs in both slow start and congestion avoidance; distinct by case hash")
ASSUMPTIONS = ["further duplicates beyond the third may or may not retransmit again (the statement only demands +MSS)",
               "new segments are not *required* while duplicates inflate the window (the send guard is a necessary condition)",
               "CUBIC reference = Ha/Rhee/Xu pseudo-code with the unit conventions of the snapshot, from the class defaults",
               "an ACK names a segment below its ACK number (cumulative ACKs; no SACK information is scripted)"]
FLOORS = {"quick": {"events": 60000, "new_acks": 20000, "dup_acks": 10000, "fast_retransmits": 1500, "timeouts": 2000,
                    "slow_start_acks": 5000, "cong_avoid_acks": 5000, "deflations": 1000, "short_dup_runs": 800,
                    "new_segments_checked": 20000, "guard_tight": 3000, "cubic_cases": 200, "reno_cases": 200,
                    "multi_segment_acks": 3000, "rtt_above_rto": 500},
          "thorough": {"events": 1200000, "new_acks": 400000, "dup_acks": 200000, "fast_retransmits": 30000,
                       "timeouts": 40000, "slow_start_acks": 100000, "cong_avoid_acks": 100000, "deflations": 20000,
                       "short_dup_runs": 16000, "new_segments_checked": 400000, "guard_tight": 60000,
                       "cubic_cases": 4000, "reno_cases": 4000, "multi_segment_acks": 60000, "rtt_above_rto": 10000}}
KEYS = tuple(FLOORS["quick"].keys()) + ("candidate_forks", "simultaneous_timeouts", "app_paced_cases", "windows_beyond_65535", "sync_acks_inside_fast_retransmit", "finite_finish_time_cases", "timeouts_after_finish_time", "other_mss_cases", "new_acks_triggered_above_a_hole")
# floors for the situations added with the later rounds of seeded changes (evidence that they were really exercised)
FLOORS["quick"].update({'sync_acks_inside_fast_retransmit': 500, 'timeouts_after_finish_time': 400})
FLOORS["thorough"].update({'sync_acks_inside_fast_retransmit': 2500, 'timeouts_after_finish_time': 2000})
FLOORS["quick"].update({'other_mss_cases': 50})
FLOORS["thorough"].update({'other_mss_cases': 250})
FLOORS["quick"].update({'new_acks_triggered_above_a_hole': 800})
FLOORS["thorough"].update({'new_acks_triggered_above_a_hole': 4000})
MSS = 512


def plan(tier):
    return {"shards": 4, "timeout": 900} if tier == "quick" else {"shards": 16, "timeout": 3400}


def ncases(tier):
    return 400 if tier == "quick" else 6000


def gen_case(rng, i):
    cubic = (i % 3 == 2)
    big = (i % 7 == 1)            # windows beyond 65535 bytes (more than 128 segments in flight), long duplicate runs
    ev = []
    for _ in range(rng.randint(10, 300)):
        r = rng.random()
        if r < 0.55:
            ev.append(["ack", rng.choice([1, 1, 1, 2, 3, 8]), rng.choice([0.01, 0.05, 0.1, 0.3, 1.0, 2.5, 6.0, 0.0, 1e-5, 3e-5])]
                      + ([rng.choice([1, 1, 2, 3])] if rng.random() < 0.15 else []))
        elif r < 0.8:
            ev.append(["dup", rng.choice([1, 2, 3, 3, 4, 5, 8, 8, 40, 100, 150] if big else [1, 2, 3, 3, 4, 5, 8])]
                      + ([[rng.choice([1, 1, 2, 8]), rng.choice([0.01, 0.1, 0.3])]] if rng.random() < 0.15 else []))
        else:
            ev.append(["wait", rng.choice([0.05, 0.5, 1.0, 2.0, 4.5, 9.0, 30.0])])
    if cubic and i % 2 == 0:
        # from the class defaults congestion avoidance starts only above 65535 bytes: a long loss-free prefix
        tiny = rng.random() < 0.5
        ev = [["ack", 1, rng.choice([1e-5, 2e-5, 3e-5]) if tiny else rng.choice([0.01, 0.1])] for _ in range(rng.randint(130, 200))] + ev
    case = {"cc": "TCPCubic" if cubic else "TCPReno", "events": ev, "rtt0": rng.choice([1.0, 0.5, 0.1, 2.0]),
            "segments": rng.choice([None, None, 40, 200])}
    if not cubic and i % 6 == 1:
        case["mss"] = rng.choice([1000, 1460, 256])
        case["segments"] = None
    if not cubic:
        case["cwnd0"] = rng.choice([512, 1024, 2048, 5000, 20000, 700])
        if "mss" in case:
            case["cwnd0"] = rng.choice([1, 2, 4, 10]) * case["mss"] + rng.choice([0, 0, 200])
        case["ssthresh0"] = rng.choice([65535, 1024, 2048, 4096, 10000, 512, 0, 100])
        if big:
            case["cwnd0"] = rng.choice([60000, 120000, 65535])
            case["segments"] = None
    if not cubic and i % 11 == 4:
        # a long stretch of congestion avoidance with a full buffer: cwnd grows by fractions of a byte-count and the
        # window edge last_ack + cwnd passes many segment boundaries (a rounded edge admits a segment early)
        case["cwnd0"], case["ssthresh0"], case["segments"] = rng.choice([1024, 2048, 5000]), rng.choice([512, 1024]), None
        case["events"] = [["ack", rng.choice([1, 1, 1, 2]), rng.choice([0.01, 0.05, 0.1])] for _ in range(rng.randint(300, 900))]
        if "mss" in case:
            case["cwnd0"] = 2 * case["mss"]
    if i % 9 == 2:
        case["finish"] = rng.choice([0.5, 2.0, 5.0, 12.0])
    if i % 5 == 3:
        # an application-paced flow: data becomes available in chunks, the sender is application limited
        case["app"] = {"gap": rng.choice([0.5, 1.0, 3.0]), "chunk": rng.choice([512, 1024, 2048])}
        case["segments"] = None
    return case


class Ref:
    """reference sender state (one admissible world)"""

    def __init__(self, case):
        self.cc = case["cc"]
        self.mss = MSS
        if self.cc == "TCPReno":
            self.cwnd, self.ssthresh = case["cwnd0"], case["ssthresh0"]
        else:
            self.cwnd, self.ssthresh = 512, 65535
            # CUBIC state (class defaults)
            self.W_last_max = 0
            self.epoch_start = 0
            self.origin_point = 0
            self.d_min = 0
            self.W_tcp = 0
            self.K = 0
            self.ack_cnt = 0
            self.beta, self.C = 0.2, 0.4
            self.cwnd_cnt = 0
            self.cnt = 0
        self.srtt = case["rtt0"]
        self.rttvar = 0
        self.rto = case["rtt0"] * 2
        self.last_ack = 0
        self.next_seq = 0
        self.dup = 0

    def copy(self):
        r = Ref.__new__(Ref)
        r.__dict__.update(self.__dict__)
        return r

    # -- congestion control ------------------------------------------------------
    def on_new_ack_cc(self, rtt, now, stats):
        if self.cc == "TCPReno":
            if self.cwnd <= self.ssthresh:
                self.cwnd += self.mss
                stats["slow_start_acks"] += 1
            else:
                self.cwnd += self.mss * self.mss / self.cwnd
                stats["cong_avoid_acks"] += 1
            return
        # CUBIC
        if self.d_min > 0:
            self.d_min = min(self.d_min, rtt)
        else:
            self.d_min = rtt
        if self.cwnd <= self.ssthresh:
            self.cwnd += self.mss
            stats["slow_start_acks"] += 1
            return
        stats["cong_avoid_acks"] += 1
        self.ack_cnt += 1
        if self.epoch_start <= 0:
            self.epoch_start = now
            if self.cwnd < self.W_last_max:
                self.K = ((self.W_last_max - self.cwnd) / self.C) ** (1.0 / 3)
            else:
                self.K = 0
                self.origin_point = self.cwnd
            self.ack_cnt = 1
            self.W_tcp = self.cwnd
        t = now + self.d_min - self.epoch_start
        target = self.origin_point + self.C * (t - self.K) ** 3
        if target > self.cwnd:
            self.cnt = self.cwnd / (target - self.cwnd)
        else:
            self.cnt = 100 * self.cwnd
        # TCP friendliness
        self.W_tcp += 3 * self.beta / (2 - self.beta) * (self.ack_cnt / self.cwnd)
        self.ack_cnt = 0
        if self.W_tcp > self.cwnd:
            max_cnt = self.cwnd / (self.W_tcp - self.cwnd)
            if self.cnt > max_cnt:
                self.cnt = max_cnt
        if self.cwnd_cnt > self.cnt:
            self.cwnd += self.mss
            self.cwnd_cnt = 0
        else:
            self.cwnd_cnt += 1

    def on_timeout_cc(self):
        self.cwnd = self.mss
        if self.cc == "TCPCubic":
            self.W_last_max = 0
            self.epoch_start = 0
            self.origin_point = 0
            self.d_min = 0
            self.W_tcp = 0
            self.K = 0
            self.ack_cnt = 0

    def public(self):
        return (self.cwnd, self.ssthresh, self.rto, self.srtt, self.rttvar, self.next_seq, self.last_ack)


def pub_of(sender):
    cc = sender.congestion_control
    return (cc.cwnd, cc.ssthresh, sender.rto, sender.rtt_estimate, sender.est_deviation, sender.next_seq, sender.last_ack)


NAMES = ("cwnd", "ssthresh", "rto", "rtt_estimate", "est_deviation", "next_seq", "last_ack")


def pub_eq(a, b):
    return all(vnet.close(x, y, rel=1e-9, abs_=1e-9) for x, y in zip(a, b))


def run_case(case, stats):
    from onl.packet import TCPPacketGenerator, TCPReno, TCPCubic, Flow, Packet
    global MSS
    MSS = case.get("mss", 512)          # the segment size of this case (every rule of the statement is in units of it)
    if MSS != 512:
        stats["other_mss_cases"] += 1
    viol = []

    def bad(m, what, wit=None):
        if len(viol) < 3:
            viol.append((m + f"[{case['cc']}]" if not m.startswith("exception") else m, what, wit))

    net = vnet.Net()
    env = net.env
    size = None if case["segments"] is None else case["segments"] * MSS
    if case.get("app"):
        g, ch = case["app"]["gap"], case["app"]["chunk"]
        flow = Flow(flow_id=1, src="s", dst="d", start_time=0, finish_time=float("inf"), size=None,
                    arrival_dist=lambda: g, size_dist=lambda: ch)
        stats["app_paced_cases"] += 1
    else:
        # (a finite finish time ends the sending of *new* data; what is in flight is still retransmitted on timeout)
        flow = Flow(flow_id=1, src="s", dst="d", start_time=0, finish_time=case.get("finish", float("inf")), size=size)
        if "finish" in case:
            stats["finite_finish_time_cases"] += 1
    if case["cc"] == "TCPReno":
        cc = TCPReno(mss=MSS, cwnd=case["cwnd0"], ssthresh=case["ssthresh0"])
        stats["reno_cases"] += 1
    else:
        cc = TCPCubic()
        stats["cubic_cases"] += 1
    sender = TCPPacketGenerator(env, flow=flow, cc=cc, rtt_estimate=case["rtt0"])
    sender.mss = MSS
    worlds = [Ref(case)]
    recv_above = set()    # segments above a hole the receiver is known to hold (they triggered an ACK)
    arm = {}              # seq -> (arm time, rto armed with)   (shared by all worlds: derived from observations)
    txlog = []            # (now, seq, kind)
    pending = {"retx_expected": None}
    state = {"in_put": False, "phase": "init"}

    class Tap:
        out = None

        def put(self, p):
            now = env.now
            seq = p.packet_id
            ccw = sender.congestion_control.cwnd
            if seq == sender.next_seq and seq not in arm and not any(t[1] == seq for t in txlog):
                # a new segment
                stats["new_segments_checked"] += 1
                if p.size != MSS:
                    bad("new-segment-not-mss", "a new data segment is not MSS-sized", p.size)
                buffered = sender.send_buffer
                if not (sender.next_seq + MSS <= min(buffered, sender.last_ack + ccw) + 1e-9):
                    bad("sent-outside-window", "a new segment was sent although next_seq + MSS > min(buffered data, last_ack + cwnd)",
                        {"next_seq": sender.next_seq, "last_ack": sender.last_ack, "cwnd": ccw, "buffered": buffered})
                if sender.next_seq + 2 * MSS > sender.last_ack + ccw:
                    stats["guard_tight"] += 1
                keep = []
                for w in worlds:
                    if seq != w.next_seq:
                        bad("segments-not-consecutive", "new segments are not consecutively numbered", {"got": seq, "expected": w.next_seq})
                    if w.next_seq + MSS <= w.last_ack + w.cwnd + 1e-9:
                        keep.append(w)
                    w.next_seq += MSS
                if not keep:
                    w = worlds[0]
                    bad("sent-outside-window", "a new segment exceeds every admissible reference window at the moment of sending",
                        {"next_seq": w.next_seq - MSS, "last_ack": w.last_ack, "cwnd": w.cwnd})
                else:
                    worlds[:] = keep
                arm[seq] = (now, sender.rto)
                txlog.append((now, seq, "new"))
            else:
                txlog.append((now, seq, "retx"))
                if state.get("sync_ack") is not None:
                    # the peer answers the fast retransmission at once, from inside its own put(): the new ACK
                    # enters the sender while the third duplicate is still being handled
                    k, rtt = state.pop("sync_ack")
                    state["sync_ack"] = None
                    w0 = worlds[0]
                    outstanding = (w0.next_seq - w0.last_ack) // MSS
                    k = max(1, min(k, outstanding))
                    ackno = w0.last_ack + k * MSS
                    while ackno in recv_above and ackno < w0.next_seq:
                        ackno += MSS
                    a = Packet(now - rtt, 40, ackno - MSS, flow_id=10001)
                    a.ack = ackno
                    stats["new_acks"] += 1
                    stats["sync_acks_inside_fast_retransmit"] += 1
                    ref_new_ack(ackno, rtt)
                    sender.put(a)

    sender.out = Tap()

    def ref_new_ack(ackno, rtt):
        """the reference sender's reaction to a new cumulative ACK (every admissible world)"""
        new = []
        for w in worlds:
            alts = []
            if w.dup >= 3:
                w.cwnd = w.ssthresh
                stats["deflations"] += 1
                alts = [w]
            elif w.dup > 0:
                stats["short_dup_runs"] += 1
                stats["candidate_forks"] += 1
                v = w.copy()
                v.cwnd = v.ssthresh
                alts = [w, v]
            else:
                alts = [w]
            for x in alts:
                x.dup = 0
                err = rtt - x.srtt
                x.srtt += 0.125 * err
                x.rttvar += 0.25 * (abs(err) - x.rttvar)
                x.rto = x.srtt + 4 * x.rttvar
                x.last_ack = ackno
                x.on_new_ack_cc(rtt, env.now, stats)
                new.append(x)
        worlds[:] = new
        for s in [s for s in arm if s < ackno]:
            del arm[s]

    def settle():
        while env.peek() <= env.now:
            env.step()

    def compare(what):
        real = pub_of(sender)
        keep = [w for w in worlds if pub_eq(w.public(), real)]
        if not keep:
            w = worlds[0]
            diffs = {n: [r, x] for n, r, x in zip(NAMES, real, w.public()) if not vnet.close(r, x, rel=1e-9, abs_=1e-9)}
            first = sorted(diffs)[0] if diffs else "?"
            bad(f"state-differs-after-{what}:{first}", "after a scripted event the sender's public state is not an admissible state of the reference sender",
                {"event": what, "real_vs_reference": diffs, "now": env.now, "admissible_worlds": len(worlds)})
            return False
        worlds[:] = keep
        if sender.congestion_control.cwnd > 65535:
            stats["windows_beyond_65535"] += 1
        if sender.congestion_control.cwnd < MSS - 1e-9:
            bad("cwnd-below-one-mss", "cwnd fell below one MSS", sender.congestion_control.cwnd)
            return False
        return True

    try:
        settle()
        if not compare("start"):
            return viol
        import collections
        queue = collections.deque([list(e) for e in case["events"]])
        while queue:
            evn = queue.popleft()
            if viol:
                break
            stats["events"] += 1
            kind = evn[0]
            w0 = worlds[0]
            if kind == "ack":
                outstanding = (w0.next_seq - w0.last_ack) // MSS
                if outstanding <= 0:
                    continue
                k = min(evn[1], outstanding)
                ackno = w0.last_ack + k * MSS
                while ackno in recv_above and ackno < w0.next_seq:
                    ackno += MSS               # the receiver already holds that segment: its cumulative ACK goes past it
                rtt = evn[2]
                if k > 1:
                    stats["multi_segment_acks"] += 1
                if rtt > w0.rto:
                    stats["rtt_above_rto"] += 1
                trig = ackno - MSS
                if len(evn) > 3 and ackno + evn[3] * MSS < w0.next_seq:
                    # this ACK was produced by a segment ABOVE a hole at ackno (the earlier ACK carrying this number was
                    # lost on the way back): it names that later segment, whose timer may be cleared as well
                    trig = ackno + evn[3] * MSS
                    recv_above.add(trig)
                    stats["new_acks_triggered_above_a_hole"] += 1
                a = Packet(env.now - rtt, 40, trig, flow_id=10001)
                a.ack = ackno
                stats["new_acks"] += 1
                ref_new_ack(ackno, rtt)
                if trig in arm:
                    del arm[trig]
                n0 = len(txlog)
                sender.put(a)          # the reference has been stepped first: the tap sees the new window
                settle()
                # any retransmission in response to a new ACK is not called for
                for t in txlog[n0:]:
                    if t[2] == "retx":
                        bad("unexpected-retransmission-on-new-ack", "a segment was retransmitted in response to a new ACK", t[1])
                if not compare("new-ack"):
                    break
            elif kind == "dup":
                if w0.next_seq == w0.last_ack:
                    continue
                for j in range(evn[1]):
                    a = Packet(env.now - 0.1, 40, w0.last_ack, flow_id=10001)
                    a.ack = worlds[0].last_ack
                    stats["dup_acks"] += 1
                    for w in worlds:
                        w.dup += 1
                        if w.dup == 3:
                            w.ssthresh = max(2 * MSS, w.cwnd / 2)
                            w.cwnd = w.ssthresh + 3 * MSS
                        elif w.dup > 3:
                            w.cwnd += MSS
                    n0 = len(txlog)
                    d = worlds[0].dup
                    missing = worlds[0].last_ack
                    sync = len(evn) > 2 and d == 3
                    if sync:
                        state["sync_ack"] = tuple(evn[2])
                    sender.put(a)
                    state["sync_ack"] = None
                    settle()
                    retx = [t for t in txlog[n0:] if t[2] == "retx"]
                    if d == 3:
                        stats["fast_retransmits"] += 1
                        if [t[1] for t in retx] != [missing]:
                            bad("third-duplicate-did-not-retransmit-missing-segment",
                                "the third duplicate ACK must retransmit exactly the missing segment",
                                {"retransmitted": [t[1] for t in retx], "missing": missing})
                    elif d < 3 and retx:
                        bad("retransmission-before-third-duplicate", "a segment was retransmitted after fewer than three duplicate ACKs",
                            {"dup": d, "retransmitted": [t[1] for t in retx]})
                    elif d > 3 and any(t[1] != missing for t in retx):
                        bad("wrong-segment-retransmitted-on-duplicate", "a further duplicate retransmitted a segment other than the missing one", None)
                    if any(t[2] == "new" for t in txlog[n0:]):
                        pass          # allowed if inside the (inflated) window: checked at the tap
                    if not compare("dup-ack" if not sync else "third-dup-ack-answered-synchronously"):
                        break
                    if sync:
                        break                 # the duplicate run has ended with the new ACK
            else:
                # wait: let retransmission timers expire, one expiry instant at a time (new segments sent
                # meanwhile -- an application-paced flow -- arm new timers: the next expiry is recomputed then)
                until = env.now + evn[1]
                # a timer whose expiry coincides with the end of the wait up to rounding (armed at a0 for r, the kernel
                # computes a0 + r by another route) belongs to this wait, whichever side of `until` the sum falls on
                edge = until + 1e-9 * max(1.0, abs(until))
                n0 = len(txlog)
                while not viol:
                    live = {s: a0 + r for s, (a0, r) in arm.items()}
                    due = [t for t in live.values() if t <= edge]
                    if not due:
                        break
                    tnext = min(due)
                    armed = set(arm)
                    rearmed = False
                    while env.peek() <= tnext + 1e-9 * max(1.0, abs(tnext)):
                        env.step()
                        if set(arm) != armed:
                            rearmed = True
                            break
                    if rearmed:
                        continue
                    expired = sorted(s for s, t in live.items() if t <= tnext + 1e-9 * max(1.0, abs(tnext)))
                    retx = sorted(t[1] for t in txlog[n0:] if t[2] == "retx")
                    n0 = len(txlog)
                    if retx != expired:
                        import os
                        if os.environ.get("C17DBG"):
                            print("ARM", {k: v for k, v in arm.items()}, "REAL", {k: (t.start_time, t.expire_time, t.stopped) for k, t in sender.timers.items()}, "now", env.now)
                        bad("timeout-retransmissions-wrong", "at a retransmission-timer expiry the sender did not retransmit exactly the expired unacknowledged segments",
                            {"now": env.now, "expired": expired, "retransmitted": retx})
                        break
                    vals = []
                    for s in expired:
                        stats["timeouts"] += 1
                        if env.now >= case.get("finish", float("inf")):
                            stats["timeouts_after_finish_time"] += 1
                        for w in worlds:
                            w.on_timeout_cc()
                            w.rto *= 2
                        vals.append(worlds[0].rto)
                    if len(expired) == 1:
                        arm[expired[0]] = (env.now, vals[0])
                    else:
                        stats["simultaneous_timeouts"] += 1
                        remaining = list(vals)
                        for s in expired:
                            t = sender.timers.get(s)
                            rv = None if t is None else t.expire_time - env.now
                            m = next((v for v in remaining if rv is not None and vnet.close(rv, v, rel=1e-9, abs_=1e-9)), None)
                            if m is None:
                                bad("timer-rearmed-with-unexpected-rto", "after simultaneous timeouts a timer was not re-armed with one of the successively doubled RTO values",
                                    {"segment": s, "rearmed_for": rv, "expected_one_of": vals})
                                m = remaining[0]
                            remaining.remove(m)
                            arm[s] = (env.now, m)
                    if not compare("timeout"):
                        break
                if viol:
                    break
                armed = set(arm)
                again = False
                while env.peek() <= until:
                    env.step()
                    if set(arm) != armed and any(a0 + r <= edge for (a0, r) in arm.values()):
                        again = True
                        break
                if again:
                    # a segment sent during the wait armed a timer that expires before its end: re-enter the wait
                    rest = until - env.now
                    if rest > 0:
                        queue.appendleft(["wait", rest])
                    if not compare("wait"):
                        break
                    continue
                if until > env.now:
                    env.run(until=until)
                if any(t[2] == "retx" for t in txlog[n0:]):
                    bad("spurious-retransmission", "a segment was retransmitted although no timer of an unacknowledged segment was due",
                        {"now": env.now, "retransmitted": [t[1] for t in txlog[n0:] if t[2] == "retx"]})
                    break
                if not compare("wait"):
                    break
    except Exception as e:
        root = e
        while root.__cause__ is not None:
            root = root.__cause__
        import traceback
        tb = traceback.extract_tb(root.__traceback__)
        where = next((f"{f.filename.split('/onl/')[-1]}:{f.name}" for f in reversed(tb)
                      if "/onl/" in f.filename and "/onl/sim/" not in f.filename), "harness")
        if where == "harness":
            raise
        bad(f"exception:{type(root).__name__}@{where}", "the sender raised", repr(root)[:200])
    return viol


def one_case(ctx, case):
    import collections
    stats = collections.Counter({k: 0 for k in KEYS})
    viol = run_case(case, stats)
    for k in KEYS:
        ctx.count(k, stats[k])
    nt = stats["fast_retransmits"] >= 1 and stats["timeouts"] >= 1 and stats["slow_start_acks"] >= 1 and stats["cong_avoid_acks"] >= 1
    return viol, nt


def run_shard(ctx):
    for i in ctx.cases(ncases(ctx.tier)):
        case = gen_case(ctx.rng(i), i)
        viol, nt = one_case(ctx, case)
        for m, what, wit in viol:
            ctx.violation(m, what, wit, case)
        ctx.case_done(case, nt)


def replay(ctx, case):
    viol, _ = one_case(ctx, case)
    for m, what, wit in viol:
        ctx.violation(m, what, wit, case)
