"""C08 -- packets are never lost, duplicated or invented between source and sink.

Monitor: per-element packet ledger from taps on every put() and a forwarding recorder shim on
every out edge: identity (very same object), field snapshot, per-flow order, conservation
in == out + discarded-by-the-documented-rule (+ held, which must be 0 at exhaustion), no
exception.  DistPacketGenerator emission law and PacketSink statistics are recomputed from the
tap log (scripted distributions, all four flag combinations).
"""
import random

from vlib import net as vnet
from vlib import sched as vs

PID = "C08"
LEVEL = "exploration"
ANCHORS = ["onl/netdev/port.py", "onl/netdev/wire.py", "onl/netdev/token_bucket.py", "onl/netdev/two_level_token_bucket.py",
           "onl/scheduler/base.py", "onl/scheduler/sp.py", "onl/scheduler/wfq.py", "onl/scheduler/virtual_clock.py",
           "onl/scheduler/drr.py", "onl/scheduler/rr.py", "onl/scheduler/wrr.py", "onl/netdev/demux.py", "onl/netdev/switch.py",
           "onl/packet/dist_generator.py", "onl/packet/sink.py", "onl/packet/packet.py"]
RULE = ("random pipelines: 1-3 sources (harness drivers or DistPacketGenerators with scripted distributions) -> chain of 0-3 "
        "single-output elements (Port, Wire, TokenBucket, TwoRateTokenBucket, SP, WFQ, VC, DRR, RR, WRR) -> optional fan-out "
        "(FlowDemux, FIBDemux, SimplePacketSwitch, FairPacketSwitch) -> per-branch chains of 0-2 elements -> PacketSinks (all "
        "flag combinations), x random finite workloads with same-instant bursts; non-trivial = the pipeline has >= 2 elements, "
        "a burst of >= 3 packets at one instant and at least one packet that waited in a queue; distinct by case hash")
ASSUMPTIONS = ["documented discard rules: Port tail drop (counted in packets_dropped), Wire loss rate, demux/switch 'no route'",
               "schedulers are configured for every flow that is sent through them"]
FLOORS = {"quick": {"pipelines": 1500, "elements_checked": 5000, "packets_through": 60000, "port_drops": 2000, "wire_losses": 300,
                    "no_route": 1000, "fanout_pipelines": 300, "generator_packets": 5000, "sink_stat_checks": 3000,
                    "sink_interarrival_cases": 300, "sink_by_src_cases": 300, "bursts3": 1500, "waited_in_queue": 10000,
                    "el_Port": 400, "el_Wire": 400, "el_TokenBucket": 200, "el_TwoRateTokenBucket": 200, "el_SP": 100,
                    "el_WFQ": 100, "el_VC": 100, "el_DRR": 100, "el_RR": 100, "el_WRR": 100, "el_FlowDemux": 50,
                    "el_FIBDemux": 50, "el_SimplePacketSwitch": 50, "el_FairPacketSwitch": 50},
          "thorough": {"pipelines": 30000, "elements_checked": 100000, "packets_through": 1200000, "port_drops": 40000,
                       "wire_losses": 6000, "no_route": 20000, "fanout_pipelines": 6000, "generator_packets": 100000,
                       "sink_stat_checks": 60000, "sink_interarrival_cases": 6000, "sink_by_src_cases": 6000, "bursts3": 30000,
                       "waited_in_queue": 200000, "el_Port": 8000, "el_Wire": 8000, "el_TokenBucket": 4000,
                       "el_TwoRateTokenBucket": 4000, "el_SP": 2000, "el_WFQ": 2000, "el_VC": 2000, "el_DRR": 2000,
                       "el_RR": 2000, "el_WRR": 2000, "el_FlowDemux": 1000, "el_FIBDemux": 1000,
                       "el_SimplePacketSwitch": 1000, "el_FairPacketSwitch": 1000}}
KEYS = tuple(FLOORS["quick"].keys()) + ("table_reconfigurations", "stray_flow_cases", "stray_packets_refused", "random_demux_packets", "port_limit_reassignments")
# floors for the situations added with the later rounds of seeded changes (evidence that they were really exercised)
FLOORS["quick"].update({'stray_packets_refused': 400})
FLOORS["thorough"].update({'stray_packets_refused': 2000})
FLOORS["quick"].update({'port_limit_reassignments': 40, 'random_demux_packets': 8000})
FLOORS["thorough"].update({'port_limit_reassignments': 200, 'random_demux_packets': 40000})
SINGLE = ["Port", "Wire", "TokenBucket", "TwoRateTokenBucket", "SP", "WFQ", "VC", "DRR", "RR", "WRR", "Port", "Wire"]
FAN = ["FlowDemux", "FIBDemux", "SimplePacketSwitch", "FairPacketSwitch"]


def plan(tier):
    return {"shards": 4, "timeout": 900} if tier == "quick" else {"shards": 16, "timeout": 3400}


def ncases(tier):
    return 1500 if tier == "quick" else 25000


def gen_single(rng, nflows):
    k = rng.choice(SINGLE)
    d = {"kind": k}
    if k == "Port":
        d.update(rate=rng.choice([0, 8000, 64000, 1e6]), limit_bytes=rng.random() < 0.5)
        d["qlimit"] = rng.choice([None, None, 300, 1000, 5000]) if d["limit_bytes"] else rng.choice([None, None, 2, 4, 10])
    elif k == "Wire":
        d.update(delay=rng.choice([0, 0.01, 0.5]), loss=rng.choice([None, None, None, 0, 0.3]))
    elif k == "TokenBucket":
        d.update(rate=rng.choice([8000, 80000]), bucket=rng.choice([50, 100, 1000, 5000]), peak=rng.choice([None, 160000]))
    elif k == "TwoRateTokenBucket":
        pir = rng.choice([None, 160000])
        d.update(cir=rng.choice([8000, 80000]), cbs=rng.choice([100, 1000]), pir=pir, pbs=None if pir is None else rng.choice([500, 2000]))
    else:
        cfg = vs.gen_config(rng, k, "float", nflows=nflows, base=0)
        cfg["rate"] = rng.choice([8000, 64000, 1e6])
        d["cfg"] = cfg
    return d


def gen_case(rng, i):
    nflows = rng.randint(1, 4)
    nsrc = rng.randint(1, 3)
    srcs = []
    for s in range(nsrc):
        if rng.random() < 0.35:
            n = rng.randint(3, 25)
            srcs.append({"gen": True, "flow": rng.randrange(nflows), "initial_delay": rng.choice([0, 0, 0.5, 1.25]),
                         "gaps": [rng.choice([0, 0, 0.1, 0.25, 1.0]) for _ in range(n - 1)] + [rng.choice([0.25, 1.0])],
                         "sizes": [rng.choice([100, 200, 1000] if rng.random() < 0.8 else [100.5, 250.25, 64.0, 40.75]) for _ in range(n)],
                         "finish": rng.choice([None, 3.0, 8.0]),
                         "id": f"g{s}"})
        else:
            arr = vnet.gen_arrivals(rng, nflows, "float", rng.randint(3, 40), [100, 200, 1000], None, burst_p=0.5)
            for a in arr:
                a["age"] = 0
                a["src"] = f"d{s}"
            srcs.append({"gen": False, "arrivals": arr, "id": f"d{s}"})
    chain = [gen_single(rng, nflows) for _ in range(rng.randint(0, 3))]
    fan = None
    if rng.random() < 0.4:
        k = rng.choice(FAN)
        nout = rng.randint(1, 3)
        fan = {"kind": k, "nout": nout}
        if k in ("FIBDemux", "FairPacketSwitch"):
            fan["fib"] = {f: rng.randrange(nout) for f in range(nflows) if rng.random() < 0.8}
        if k == "FairPacketSwitch":
            fan["server"] = rng.choice(["SP", "WFQ", "DRR", "VirtualClock"])
            fan["buffer"] = rng.choice([3, 10, 1000])
            fan["rate"] = rng.choice([8000, 1e6])
        if k == "SimplePacketSwitch":
            fan["buffer"] = rng.choice([2, 5, 1000])
            fan["rate"] = rng.choice([8000, 1e6])
        if k in ("FlowDemux", "FIBDemux"):
            fan["default"] = rng.random() < 0.4
        if k in ("FIBDemux", "FairPacketSwitch") and rng.random() < 0.35:
            # the table is replaced / edited in place while traffic flows
            fan["reconf"] = {"t": rng.choice([0.3, 1.0, 2.5]), "how": rng.choice(["setter", "inplace"]),
                             "fib": {f: rng.randrange(nout) for f in range(nflows) if rng.random() < 0.8}}
        fan["branches"] = [[gen_single(rng, nflows) for _ in range(rng.randint(0, 2))] for _ in range(nout + (1 if fan.get("default") else 0))]
    if not chain and not fan:
        chain = [gen_single(rng, nflows)]
    flags = [rng.random() < 0.8, rng.random() < 0.6, rng.random() < 0.8, rng.random() < 0.7]
    return {"nflows": nflows, "sources": srcs, "chain": chain, "fan": fan, "sink_flags": flags, "rseed": rng.randrange(1 << 30)}


class Elem:
    """one element of a pipeline with its ledger info"""

    def __init__(self, name, kind, obj, desc):
        self.name, self.kind, self.obj, self.desc = name, kind, obj, desc
        self.outs = []        # shim names


def build_single(net, d, name):
    from onl.netdev import Port, Wire, TokenBucket, TwoRateTokenBucket
    env = net.env
    k = d["kind"]
    if k == "Port":
        o = Port(env, d["rate"], d["qlimit"], d["limit_bytes"], name)
    elif k == "Wire":
        dl = d["delay"]
        o = Wire(env, lambda: dl, d["loss"])
    elif k == "TokenBucket":
        o = TokenBucket(env, d["rate"], d["bucket"], peak=d["peak"])
    elif k == "TwoRateTokenBucket":
        o = TwoRateTokenBucket(env, d["cir"], d["cbs"], d["pir"], d["pbs"])
    else:
        o, _, _ = vs.build(net, d["cfg"])
    return o


def run_case(case, stats):
    from onl.netdev import SimplePacketSwitch, FairPacketSwitch
    from onl.netdev.demux import FlowDemux, FIBDemux
    from onl.packet import DistPacketGenerator, PacketSink
    viol = []

    def bad(m, what, wit=None):
        if len(viol) < 4:
            viol.append((m, what, wit))

    random.seed(case["rseed"])
    net = vnet.Net()
    env, tape = net.env, net.tape
    elems = []
    nflows = case["nflows"]
    sinks = []

    def make_sink(name):
        f = case["sink_flags"]
        s = PacketSink(env, rec_arrivals=f[0], absolute_arrivals=f[1], rec_waits=f[2], rec_flow_ids=f[3])
        rec = net.recorder(name, forward=s, kind="sink")
        sinks.append((name, s, rec))
        return rec

    def build_chain(descs, prefix, tail):
        """returns the entry device of the chain that ends in `tail`"""
        nxt = tail
        built = []
        for j in reversed(range(len(descs))):
            d = descs[j]
            name = f"{prefix}{j}:{d['kind']}"
            o = build_single(net, d, name)
            shim = net.recorder(name + ">", forward=nxt)
            o.out = shim
            net.tap_put(o, name)
            e = Elem(name, d["kind"], o, d)
            e.outs = [name + ">"]
            built.append(e)
            nxt = o
        elems.extend(reversed(built))
        return nxt

    fan = case["fan"]
    if fan:
        k, nout = fan["kind"], fan["nout"]
        branch_entries = []
        for b, descs in enumerate(fan["branches"]):
            branch_entries.append(build_chain(descs, f"b{b}.", make_sink(f"sink{b}")))
        name = f"fan:{k}"
        shims = [net.recorder(f"{name}>{b}", forward=branch_entries[b]) for b in range(len(branch_entries))]
        default = shims[nout] if fan.get("default") else None
        if k == "FlowDemux":
            o = FlowDemux(shims[:nout], default)
        elif k == "FIBDemux":
            o = FIBDemux(outs=shims[:nout], fib={int(a): b for a, b in fan["fib"].items()}, default_out=default)
        elif k == "SimplePacketSwitch":
            o = SimplePacketSwitch(env, nout, fan["rate"], fan["buffer"], element_id="sps")
            for port, sh in zip(o.ports, shims):
                port.out = sh
        else:
            weights = {f: 1 + (f % 3) for f in range(nflows)}
            o = FairPacketSwitch(env, nout, fan["rate"], fan["buffer"], weights, fan["server"], element_id="fps")
            o.demux.fib = {int(a): b for a, b in fan["fib"].items()}
            for port, sh in zip(o.ports, shims):
                port.out = sh
        net.tap_put(o, name)
        if fan.get("reconf"):
            rc = fan["reconf"]
            rc["seq"] = None
            live = o if k == "FIBDemux" else o.demux

            def reconfigure(rc=rc, live=live):
                yield env.timeout(rc["t"])
                rc["seq"] = len(tape.ev)                 # packets entering with a larger action seq see the new table
                new = {int(a): b for a, b in rc["fib"].items()}
                if rc["how"] == "setter":
                    live.fib = new
                else:
                    tbl = live.fib
                    tbl.clear()
                    tbl.update(new)
            env.process(reconfigure())
            stats["table_reconfigurations"] += 1
        e = Elem(name, k, o, fan)
        e.outs = [f"{name}>{b}" for b in range(len(branch_entries))]
        elems.append(e)
        tail = o
        stats["fanout_pipelines"] += 1
    else:
        tail = make_sink("sink0")
    entry = build_chain(case["chain"], "a", tail)
    # sources
    gens = []
    for sdesc in case["sources"]:
        if sdesc["gen"]:
            ad = vnet.Script(sdesc["gaps"], net, "gap", cycle=True)
            sd = vnet.Script(sdesc["sizes"], net, "size", cycle=True)
            g = DistPacketGenerator(env, sdesc["id"], ad, sd, initial_delay=sdesc["initial_delay"],
                                    finish=sdesc["finish"] if sdesc["finish"] is not None else float("inf"),
                                    flow_id=sdesc["flow"], rec_flow=True)
            shim = net.recorder(f"gen:{sdesc['id']}", forward=entry, kind="gen")
            g.out = shim
            # register generated packets with the ledger as they appear
            oput = shim.put

            def gput(p, oput=oput):
                net.pk.register(p)
                oput(p)
            shim.put = gput
            gens.append((sdesc, g, shim, ad, sd))
        else:
            net.driver(entry, sdesc["arrivals"], src=sdesc["id"])
    horizon = None
    if any(s["gen"] and s["finish"] is None for s in case["sources"]):
        horizon = 12.0
    with_quiet = vnet_quiet()
    with with_quiet:
        err = net.run(until=horizon)
        if horizon is not None and not err:
            # stop the infinite generators, then drain
            for sdesc, g, shim, ad, sd in gens:
                g.finish = 0
            err = net.run()
    if err:
        bad(err, "the run raised", net.errors[-1] if net.errors else err)
        return viol
    stats["pipelines"] += 1
    # ---- per-element ledger
    ins_all = {}
    for e in tape.ev:
        if e[3] == "in":
            ins_all.setdefault(e[4], []).append(e)
    outs_all = {}
    for e in tape.ev:
        if e[3] == "out":
            outs_all.setdefault(e[4], []).append(e)
    # bursts / waiting (non-triviality)
    t_counts = {}
    for e in tape.ev:
        if e[3] == "in":
            t_counts[(e[4], e[2])] = t_counts.get((e[4], e[2]), 0) + 1
    if any(v >= 3 for v in t_counts.values()):
        stats["bursts3"] += 1
    for el in elems:
        ins = ins_all.get(el.name, [])
        outs = [x for o in el.outs for x in outs_all.get(o, [])]
        outs.sort(key=lambda x: x[0])
        stats["elements_checked"] += 1
        stats["el_" + el.kind] += 1
        stats["packets_through"] += len(ins)
        in_u = [x[5] for x in ins]
        in_pos = {}
        for i, u in enumerate(in_u):
            if u in in_pos:
                continue
            in_pos[u] = i
        seen = set()
        last_by_flow = {}
        for o in outs:
            u = o[5]
            if u < 0 or u not in in_pos:
                bad(f"invented-or-copied-packet[{el.kind}]", "an element forwarded a packet that was not handed to it (or a different object)",
                    {"element": el.name})
                return viol
            if u in seen and in_u.count(u) < 2:
                bad(f"packet-duplicated[{el.kind}]", "an element forwarded one packet twice", {"element": el.name, "uid": u})
                return viol
            seen.add(u)
            p = net.pk.objs[u]
            ch = net.pk.fields_changed(p)
            if ch:
                bad(f"identifying-field-changed[{el.kind}]", "a packet's identifying fields changed on the way", {"fields": ch, "element": el.name})
                return viol
            f = p.flow_id
            if len(el.outs) > 1:
                f = (f, o[4])          # a fan-out element: order is judged per output (a flow may be re-routed)
            if f in last_by_flow and in_pos[u] < last_by_flow[f]:
                bad(f"flow-reordered[{el.kind}]", "packets of one flow left an element in another order than they entered",
                    {"element": el.name, "flow": f})
                return viol
            last_by_flow[f] = in_pos[u]
        # waited in a queue?
        out_t = {o[5]: o[2] for o in outs}
        stats["waited_in_queue"] += sum(1 for x in ins if out_t.get(x[5], x[2]) > x[2])
        missing = len(ins) - len(outs)
        k, obj, d = el.kind, el.obj, el.desc
        if k == "Port":
            stats["port_drops"] += obj.packets_dropped
            if obj.packets_received != len(ins):
                bad("port-received-counter-wrong", "Port.packets_received differs from the packets handed in", None)
            if missing != obj.packets_dropped:
                bad("conservation-broken[Port]", "in != out + counted tail drops at exhaustion (lost, or held forever)",
                    {"in": len(ins), "out": len(outs), "packets_dropped": obj.packets_dropped, "byte_size": obj.byte_size, "desc": d})
                return viol
            if obj.byte_size != 0 or obj.store.items:
                bad("still-held-at-exhaustion[Port]", "a port still advertises held bytes / packets after the run ran out of events", obj.byte_size)
        elif k == "Wire":
            if d["loss"]:
                stats["wire_losses"] += missing
                if missing < 0:
                    bad("conservation-broken[Wire]", "a wire delivered more than it received", None)
            elif missing != 0:
                bad("conservation-broken[Wire]", "a wire without loss rate did not deliver every packet", {"in": len(ins), "out": len(outs)})
                return viol
        elif k in ("TokenBucket", "TwoRateTokenBucket") or k in vs.KINDS:
            if missing != 0:
                bad(f"conservation-broken[{k}]", "a shaper/scheduler did not forward every packet of a configured flow exactly once at exhaustion",
                    {"in": len(ins), "out": len(outs), "desc": d if k not in vs.KINDS else d["cfg"]})
                return viol
            if k in vs.KINDS and obj.total_packets != 0:
                bad(f"still-held-at-exhaustion[{k}]", "a scheduler still reports queued packets after the run ran out of events", obj.total_packets)
        else:
            # fan-out: recompute the route of every packet
            expect_out = 0
            noroute = 0
            per_out = {}
            def table_at(seq):
                rc = d.get("reconf")
                if rc and rc.get("seq") is not None and seq >= rc["seq"]:
                    return rc["fib"]
                return d["fib"]
            route_of = {}
            for x in ins:
                f = net.pk.objs[x[5]].flow_id
                if k == "FlowDemux" or k == "SimplePacketSwitch":
                    r = f if f < d["nout"] else ("default" if d.get("default") else None)
                else:
                    tb = table_at(x[0])
                    r = tb.get(f, tb.get(str(f)))
                    if r is None:
                        r = "default" if d.get("default") else None
                route_of[x[5]] = r
                if r is None:
                    noroute += 1
                else:
                    expect_out += 1
                    per_out[r] = per_out.get(r, 0) + 1
            stats["no_route"] += noroute
            drops = 0
            if k == "SimplePacketSwitch":
                drops = sum(p.packets_dropped for p in obj.ports)
            elif k == "FairPacketSwitch":
                drops = sum(p.packets_dropped for p in obj.egress_ports)
            stats["port_drops"] += drops
            if len(outs) != expect_out - drops:
                bad(f"conservation-broken[{k}]", "a demux/switch did not forward exactly the routable packets (minus counted tail drops)",
                    {"in": len(ins), "out": len(outs), "routable": expect_out, "no_route": noroute, "drops": drops, "desc": {kk: vv for kk, vv in d.items() if kk != "branches"}})
                return viol
            # right branch
            for b, oname in enumerate(el.outs):
                for o in outs_all.get(oname, []):
                    f = net.pk.objs[o[5]].flow_id
                    r = route_of.get(o[5])
                    rb = d["nout"] if r == "default" else r
                    if rb != b:
                        bad(f"wrong-branch[{k}]" + ("[after-table-change]" if d.get("reconf") else ""), "a demux/switch sent a packet to an output other than the one its table names", {"flow": f, "got": b, "want": rb})
                        return viol
    # ---- generators
    for sdesc, g, shim, ad, sd in gens:
        t = sdesc["initial_delay"]
        emitted = shim.got
        for n, (now, u, p) in enumerate(emitted, start=1):
            gap = sdesc["gaps"][(n - 1) % len(sdesc["gaps"])]
            t = t + gap
            size = sdesc["sizes"][(n - 1) % len(sdesc["sizes"])]
            stats["generator_packets"] += 1
            if p.packet_id != n or p.size != size or p.time != now or not vnet.close(now, t) or p.flow_id != sdesc["flow"] or p.src != sdesc["id"]:
                bad("generator-emission-law-broken", "DistPacketGenerator did not emit packet n at initial_delay + n-th partial sum with the n-th size",
                    {"n": n, "id": p.packet_id, "time": [now, t], "size": [p.size, size], "flow": p.flow_id, "src": p.src})
                return viol
        if g.packets_send != len(emitted) or list(g.time_rec) != [x[0] for x in emitted] or list(g.size_rec) != [x[2].size for x in emitted]:
            bad("generator-counters-wrong", "DistPacketGenerator's packets_send / time_rec / size_rec differ from what it emitted", None)
            return viol
        if sdesc["finish"] is not None:
            # emitted exactly while the previous emission instant (or the start) was before finish
            tt = sdesc["initial_delay"]
            n = 0
            while tt < sdesc["finish"]:
                tt = tt + sdesc["gaps"][n % len(sdesc["gaps"])]
                n += 1
                if n > 10000:
                    break
            if n != len(emitted):
                bad("generator-stopped-early-or-late", "DistPacketGenerator did not emit exactly the packets whose predecessor left before `finish`",
                    {"emitted": len(emitted), "expected": n, "finish": sdesc["finish"]})
                return viol
    # ---- sinks
    f = case["sink_flags"]
    for name, s, rec in sinks:
        by = {}
        for (now, u, p) in rec.got:
            idx = p.flow_id if f[3] else p.src
            by.setdefault(idx, []).append((now, p))
        if not f[1] and f[0]:
            stats["sink_interarrival_cases"] += 1
        if not f[3]:
            stats["sink_by_src_cases"] += 1
        for idx, lst in by.items():
            stats["sink_stat_checks"] += 1
            if s.packets_received[idx] != len(lst) or s.bytes_received[idx] != sum(p.size for _, p in lst):
                bad("sink-counts-wrong", "PacketSink packet/byte counts differ from the packets delivered to it", {"index": idx})
                return viol
            if f[0]:
                if f[1]:
                    want = [now for now, _ in lst]
                else:
                    want, last = [], 0.0
                    for now, _ in lst:
                        want.append(now - last)
                        last = now
                if list(s.arrivals[idx]) != want:
                    bad("sink-arrivals-wrong[absolute]" if f[1] else "sink-arrivals-wrong[inter-arrival]",
                        "PacketSink arrival records differ from the delivery instants", {"index": idx, "got": list(s.arrivals[idx])[:6], "want": want[:6]})
                    return viol
            elif s.arrivals.get(idx):
                bad("sink-arrivals-recorded-although-off", "PacketSink recorded arrivals although rec_arrivals is off", None)
            if f[2]:
                want = [now - p.time for now, p in lst]
                if list(s.waits[idx]) != want:
                    bad("sink-waits-wrong", "PacketSink waits differ from arrival minus creation time", {"index": idx})
                    return viol
        extra = [k for k in s.packets_received if k not in by and s.packets_received[k]]
        if extra:
            bad("sink-counts-wrong", "PacketSink counted packets for an index nothing was delivered to", extra)
    return viol


class vnet_quiet:
    def __enter__(self):
        import io
        import sys
        self.o = sys.stdout
        sys.stdout = io.StringIO()

    def __exit__(self, *a):
        import sys
        sys.stdout = self.o


def gen_stray(rng):
    """FIBDemux -> WFQ / VirtualClock, where the table also routes flows the scheduler has no weight for: such a
    packet is refused by the scheduler (KeyError), which the demux turns into "no route" (default output).  A
    refused packet is accounted for there and nowhere else."""
    kind = rng.choice(["WFQ", "VC"])
    flows = list(range(rng.randint(1, 3)))
    stray = [7, 9][:rng.randint(1, 2)]
    arr = vnet.gen_arrivals(rng, len(flows) + len(stray), "float", rng.randint(6, 40), [100, 200, 1000], None, burst_p=0.5,
                            flows=flows + stray)
    return {"kind": "stray", "sched": kind, "flows": flows, "stray": stray, "rate": rng.choice([8000, 64000]),
            "weights": {str(f): rng.choice([1, 2, 0.5]) for f in flows}, "arrivals": arr}


def run_stray(case, stats):
    from onl.scheduler import WFQ, VC
    from onl.netdev.demux import FIBDemux
    viol = []
    net = vnet.Net()
    env = net.env
    w = {int(f): x for f, x in case["weights"].items()}
    sched = (WFQ if case["sched"] == "WFQ" else VC)(env, case["rate"], w)
    out, dflt = net.recorder("out"), net.recorder("default")
    sched.out = out
    dm = FIBDemux(outs=[sched], fib={f: 0 for f in case["flows"] + case["stray"]}, default_out=dflt)
    net.tap_put(dm, "demux")
    net.drivers(dm, case["arrivals"])
    with vnet_quiet():
        err = net.run()
    stats["stray_flow_cases"] += 1
    if err:
        return [(err + f"[{case['sched']}, flows without a weight]", "the run raised", net.errors[-1] if net.errors else err)]
    ins = net.tape.of("demux", "in")
    at_out = [e[5] for e in net.tape.of("out", "out")]
    at_def = [e[5] for e in net.tape.of("default", "out")]
    for e in ins:
        u = e[5]
        f = net.pk.objs[u].flow_id
        n_out, n_def = at_out.count(u), at_def.count(u)
        if f in case["stray"]:
            stats["stray_packets_refused"] += 1
            if (n_out, n_def) != (0, 1):
                viol.append((f"refused-packet-not-accounted-once[{case['sched']}]", "a packet the scheduler refused (no weight for its class) is not accounted for exactly once at the default output",
                             {"at_out": n_out, "at_default": n_def}))
                break
        elif (n_out, n_def) != (1, 0):
            viol.append((f"conservation-broken[{case['sched']}][after a refused packet]", "a packet of a configured flow did not leave the scheduler exactly once",
                         {"flow": f, "at_out": n_out, "at_default": n_def}))
            break
    if not viol and sched.total_packets != 0:
        viol.append((f"still-held-at-end[{case['sched']}][after a refused packet]", "arrivals stopped and the simulation ran out of events but the scheduler still counts packets as held",
                     {"total_packets": sched.total_packets}))
    return viol


def gen_limit_change(rng):
    old, new = rng.choice([(1, 8), (2, 10), (3, 20), (10, 2), (20, 3), (8, 1)])
    return {"kind": "limit-change", "old": old, "new": new, "rate": rng.choice([8000, 64000]), "size": rng.choice([100, 500])}


def run_limit_change(case, stats):
    """a packet-limited port whose public qlimit is reassigned while it is idle: the next burst is tail-dropped by the
    limit in force (a packet may be discarded only by the element's documented rule)"""
    from onl.netdev import Port
    net = vnet.Net()
    env = net.env
    port = Port(env, case["rate"], case["old"], False, "p")
    sink = net.recorder("sink")
    port.out = sink
    old, new = case["old"], case["new"]
    burst = (new - 2) if new > old else (old - 2)
    res = {}

    def drv():
        for k in range(old + 3):
            port.put(net.make_packet(0, case["size"], k))
        yield env.timeout(1000)                      # long after everything has left
        port.qlimit = new
        stats["port_limit_reassignments"] += 1
        yield env.timeout(1)
        d0, r0 = port.packets_dropped, port.packets_received
        for k in range(burst):
            port.put(net.make_packet(0, case["size"], 100 + k))
        res["dropped"], res["received"] = port.packets_dropped - d0, port.packets_received - r0
    env.process(drv())
    err = net.run()
    if err:
        return [(err, "the run raised", net.errors[-1] if net.errors else err)]
    accepted = res["received"] - res["dropped"]
    # qlimit n: one packet in transmission + at most n - 1 waiting; at an idle port the first packet of a burst may or may
    # not have started when the others arrive (same kernel step): between min(burst, n - 1) and min(burst, n) are accepted
    lo, hi = min(burst, new - 1), min(burst, new)
    if not (lo <= accepted <= hi):
        return [("port-drop-rule-ignores-current-limit[Port]", "after port.qlimit was reassigned on an idle port a burst was not tail-dropped by the limit in force",
                 {"old": old, "new": new, "burst": burst, "accepted": accepted, "expected": [lo, hi]})]
    return []


def gen_random_demux(rng):
    nout = rng.randint(1, 4)
    scale = rng.choice([1, 1, 0.5, 3, 10, 0.1])          # relative weights: they need not sum to 1
    w = [rng.choice([1, 2, 3, 5]) for _ in range(nout)]
    tot = sum(w)
    return {"kind": "random-demux", "probs": [x / tot * scale for x in w], "n": rng.randint(50, 400), "rseed": rng.randrange(1 << 30)}


def run_random_demux(case, stats):
    from onl.netdev.demux import RandomDemux
    random.seed(case["rseed"])
    net = vnet.Net()
    outs = [net.recorder(f"o{j}") for j in range(len(case["probs"]))]
    dm = RandomDemux(outs, list(case["probs"]))
    pkts = [net.make_packet(k % 3, 100, k) for k in range(case["n"])]
    for p in pkts:
        dm.put(p)
    stats["random_demux_packets"] += len(pkts)
    got = [u for o in outs for (_, u, _) in o.got]
    want = [net.pk.uid[id(p)] for p in pkts]
    if sorted(got) != sorted(want):
        return [("conservation-broken[RandomDemux]", "a RandomDemux (no buffer, no discard rule) did not hand every packet to exactly one output",
                 {"in": len(want), "out": len(got), "weights": case["probs"]})]
    if dm.packets_recevied != len(pkts):
        return [("demux-counter-wrong[RandomDemux]", "the received counter differs from the packets handed in", dm.packets_recevied)]
    return []


def one_case(ctx, case):
    import collections
    stats = collections.Counter({k: 0 for k in KEYS})
    if case.get("kind") == "limit-change":
        viol = run_limit_change(case, stats)
        for k in KEYS:
            ctx.count(k, stats[k])
        return viol, True
    if case.get("kind") == "random-demux":
        viol = run_random_demux(case, stats)
        for k in KEYS:
            ctx.count(k, stats[k])
        return viol, True
    if case.get("kind") == "stray":
        viol = run_stray(case, stats)
        for k in KEYS:
            ctx.count(k, stats[k])
        return viol, stats["stray_packets_refused"] >= 1
    viol = run_case(case, stats)
    for k in KEYS:
        ctx.count(k, stats[k])
    nel = len(case["chain"]) + (1 + sum(len(b) for b in case["fan"]["branches"]) if case["fan"] else 0)
    nt = nel >= 2 and stats["bursts3"] >= 1 and stats["waited_in_queue"] >= 1
    return viol, nt


def run_shard(ctx):
    for i in ctx.cases(ncases(ctx.tier)):
        case = gen_stray(ctx.rng(i)) if i % 30 == 11 else gen_random_demux(ctx.rng(i)) if i % 30 == 23 else gen_limit_change(ctx.rng(i)) if i % 30 == 17 else gen_case(ctx.rng(i), i)
        viol, nt = one_case(ctx, case)
        for m, what, wit in viol:
            ctx.violation(m, what, wit, case)
        ctx.case_done(case, nt)


def replay(ctx, case):
    viol, _ = one_case(ctx, case)
    for m, what, wit in viol:
        ctx.violation(m, what, wit, case)
