"""C19 -- a Timer fires exactly at its expiry, and stop/restart always take effect.

Monitor: reference timer automaton stepped over the action history (create / stop / restart calls
from other processes and from the callback, callback entries) in action order:
  create at t0      -> E = t0 + timeout
  stop              -> never fires again
  restart(tau) at r on a pending timer or inside the callback -> E = r + tau (old expiry void)
  firing            -> must be at E exactly, once, with the given args; then E += timeout if auto
Cases the statement leaves open (restart after a one-shot timer fired) only have to not raise,
not fire twice for one expiry, not fire with wrong args.
"""
from vlib import kern

PID = "C19"
LEVEL = "exploration"
ANCHORS = ["onl/utils/timer.py", "onl/packet/tcp_generator.py"]
RULE = ("random histories of 0-10 stop / restart(tau) calls from 1-3 other processes and from the timer's own callback "
        "(the TCP usage: restart inside the callback, scalar args), at instants before / exactly at / after expiries, "
        "several per instant, one-shot and auto-restart timers, integer and decimal timeouts, scalar / list / kwargs "
        "arguments, callbacks returning None / False / 0 / True / a string; non-trivial = >= 1 call exactly at an expiry instant or from inside the callback, and >= 2 firings; "
        "distinct by case hash")
ASSUMPTIONS = ["after stop() the timer never fires again, also if restart() is called later (literal reading)",
               "restart after a one-shot timer has fired may or may not arm it again"]
FLOORS = {"quick": {"firings_checked": 20000, "calls": 20000, "calls_at_expiry_instant": 3000, "restart_in_callback": 3000,
                    "stop_in_callback": 500, "scalar_args_cases": 1000, "auto_restart_cases": 1500,
                    "restart_pending": 4000, "restart_after_fired": 500, "stops": 3000, "suppressed_by_stop": 1000,
                    "old_expiry_voided": 2000},
          "thorough": {"firings_checked": 400000, "calls": 400000, "calls_at_expiry_instant": 60000,
                       "restart_in_callback": 60000, "stop_in_callback": 10000, "scalar_args_cases": 20000,
                       "auto_restart_cases": 30000, "restart_pending": 80000, "restart_after_fired": 10000,
                       "stops": 60000, "suppressed_by_stop": 20000, "old_expiry_voided": 40000}}
KEYS = tuple(FLOORS["quick"].keys()) + ("falsy_scalar_args_cases", "big_clock_cases", "long_history_cases", "rational_clock_cases", "periodic_callback_returns_false")
# floors for the situations added with the later rounds of seeded changes (evidence that they were really exercised)
FLOORS["quick"].update({'rational_clock_cases': 150})
FLOORS["thorough"].update({'rational_clock_cases': 750})
FLOORS["quick"].update({'two_timer_cases': 300, 'unreferenced_timer_probes': 4})
FLOORS["thorough"].update({'two_timer_cases': 1500, 'unreferenced_timer_probes': 4})
FLOORS["quick"].update({'timer_attribute_cases': 60})
FLOORS["thorough"].update({'timer_attribute_cases': 300})
FLOORS["quick"].update({'periodic_callback_returns_false': 1000})
FLOORS["thorough"].update({'periodic_callback_returns_false': 5000})


def plan(tier):
    return {"shards": 4, "timeout": 600} if tier == "quick" else {"shards": 16, "timeout": 3400}


def ncases(tier):
    return 5000 if tier == "quick" else 100000


def gen_case(rng, i):
    flavour = "exact" if rng.random() < 0.6 else "float"
    if flavour == "exact":
        taus = [1, 2, 3, 5, 0.5, 0.25, 4]
        grid = [0, 0.25, 0.5, 1, 1, 2, 3]
    else:
        taus = [0.1, 0.3, 1.7, 2.2, 0.7, 5.03, 0.11]
        grid = [0, 0.1, 0.3, 0.7, 1.1, 2.2, 0.05]
    tau0 = rng.choice(taus)
    auto = rng.random() < 0.4
    t0 = rng.choice([0, 0, 1, 0.5] if flavour == "exact" else [0, 0.3, 1.1])
    argform = rng.choice(["scalar", "scalar", "scalar0", "scalar-empty", "scalar-false", "list", "list2", "list0", "kwargs", "none"])
    # predict some expiry instants to aim calls at them
    aims = [t0 + tau0]
    if auto:
        aims += [t0 + tau0 + tau0, t0 + tau0 + tau0 + tau0]
    ctrls = []
    for _ in range(rng.randint(1, 3)):
        acts = []
        t = 0
        for _ in range(rng.randint(0, 5)):
            r = rng.random()
            if r < 0.4:
                t = max(t, rng.choice(aims))
            else:
                t = t + rng.choice(grid)
            act = ["restart", rng.choice(taus)] if rng.random() < 0.65 else ["stop"]
            acts.append([t] + act)
            if act[0] == "restart":
                aims.append(t + act[1])
        acts.sort(key=lambda a: a[0])
        ctrls.append(acts)
    incb = {}
    for n in range(1, 6):
        r = rng.random()
        if r < 0.5:
            incb[str(n)] = ["restart", rng.choice(taus)]
        elif r < 0.58:
            incb[str(n)] = ["stop"]
    case = {"flavour": flavour, "tau0": tau0, "auto": auto, "t0": t0, "argform": argform, "ctrls": ctrls, "incb": incb,
            "horizon": 40, "env_t0": rng.choice([0, 0, 0, 2 ** 30 if flavour == "exact" else 1.7e9])}
    if flavour == "exact" and case["env_t0"] == 0 and rng.random() < 0.1:
        case["rational"] = True          # "any positive timeouts": durations that are neither int nor float
    if i % 50 == 3:
        # a long history on ONE timer process: more than a thousand expiries, re-armed by auto-restart or from the
        # callback, nobody restarting it from outside
        case.update({"auto": rng.random() < 0.5, "tau0": 0.25 if flavour == "exact" else 0.3, "ctrls": [], "horizon": 420,
                     "long_history": True, "env_t0": 0})
        case["incb"] = {} if case["auto"] else {"*": ["restart", case["tau0"]]}
    # what the callback returns is its own business (a recorder's `return pid not in seen`): the timer ignores it
    case["cbret"] = rng.choice([None, None, None, False, False, 0, True, "again"])
    return case


def rational(case):
    """the same case on an exact rational clock: every duration and instant becomes a fractions.Fraction (x * 2/3), so
    the coincidences of the case are preserved and none of the values is an int or a float"""
    import copy
    from fractions import Fraction
    c = copy.deepcopy(case)
    q = lambda x: Fraction(x) * Fraction(2, 3)
    c["tau0"], c["t0"] = q(c["tau0"]), q(c["t0"])
    for acts in c["ctrls"]:
        for a in acts:
            a[0] = q(a[0])
            if a[1] == "restart":
                a[2] = q(a[2])
    for k, act in c["incb"].items():
        if act[0] == "restart":
            act[1] = q(act[1])
    return c


def run_case(case, stats):
    K = kern.RealK.load()
    from onl.utils import Timer
    if case.get("rational"):
        case = rational(case)
        stats["rational_clock_cases"] += 1
    Env = kern.make_monenv(K.Environment)
    E0 = case.get("env_t0", 0)
    env = Env(E0)
    viol = []
    tape = []          # (seq, now, kind, detail)
    if E0:
        stats["big_clock_cases"] += 1
    if case.get("long_history"):
        stats["long_history_cases"] += 1

    def bad(m, what, wit=None):
        if len(viol) < 4:
            viol.append((m, what, wit))

    form = case["argform"]
    args, kwargs, want_args, want_kw = None, None, (), {}
    if form == "scalar":
        args, want_args = 7, (7,)
        stats["scalar_args_cases"] += 1
    elif form == "scalar0":
        args, want_args = 0, (0,)            # packet id 0 is what the TCP sender arms its first timer with
        stats["scalar_args_cases"] += 1
        stats["falsy_scalar_args_cases"] += 1
    elif form == "scalar-empty":
        args, want_args = "", ("",)
        stats["falsy_scalar_args_cases"] += 1
    elif form == "scalar-false":
        args, want_args = False, (False,)
        stats["falsy_scalar_args_cases"] += 1
    elif form == "list0":
        args, want_args = [0], (0,)
    elif form == "list":
        args, want_args = [3], (3,)
    elif form == "list2":
        args, want_args = ["a", 2], ("a", 2)
    elif form == "kwargs":
        args, kwargs, want_args, want_kw = [1], {"x": 5}, (1,), {"x": 5}
    if case["auto"]:
        stats["auto_restart_cases"] += 1
        if case.get("cbret") is False:
            stats["periodic_callback_returns_false"] += 1
    holder = {}
    nfire = [0]

    def do(act, who):
        t = holder.get("timer")
        if t is None:
            return
        try:
            if act[0] == "stop":
                tape.append((len(tape), env.now, "stop", who))
                t.stop()
            else:
                tape.append((len(tape), env.now, "restart", who, act[1]))
                t.restart(act[1])
        except Exception as e:
            bad(f"exception:{type(e).__name__}@{act[0]}[{'callback' if who == 'cb' else 'other-process'}]",
                "stop()/restart() raised", {"now": env.now, "act": act, "exc": repr(e)[:200]})

    def cb(*a, **kw):
        nfire[0] += 1
        tape.append((len(tape), env.now, "fire", a, kw))
        act = case["incb"].get(str(nfire[0])) or case["incb"].get("*")
        if act:
            do(act, "cb")
        return case.get("cbret")

    def creator():
        if case["t0"] > 0:
            yield env.timeout(case["t0"])
        elif E0:
            yield env.timeout(0)
        tape.append((len(tape), env.now, "create", case["tau0"]))
        holder["timer"] = Timer(env, case["tau0"], cb, auto_restart=case["auto"], args=args, kwargs=kwargs)
        yield env.timeout(0)

    def ctrl(acts, k):
        for a in acts:
            gap = E0 + a[0] - env.now
            if gap > 0:
                if k % 2 and gap > 0.5:
                    yield env.timeout(gap / 2)
                    gap = E0 + a[0] - env.now
                if gap > 0:
                    yield env.timeout(gap)
            do(a[1:], f"p{k}")

    env.process(creator())
    for k, acts in enumerate(case["ctrls"]):
        env.process(ctrl(acts, k))
    H = E0 + case["horizon"]
    try:
        env.run(until=H)
    except Exception as e:
        root = e
        while root.__cause__ is not None:
            root = root.__cause__
        bad(f"exception:{type(root).__name__}@run", "env.run() raised", repr(root)[:300])
        return viol
    # ---- reference automaton over the action history
    exact = case["flavour"] == "exact"

    import math

    def same(a, b):
        # a few units in the last place (a relative tolerance would be blind on large clock values)
        return a == b if exact else (a == b or abs(a - b) <= 64 * math.ulp(max(abs(a), abs(b), 1.0)))

    E = None            # set of admissible pending expiries (None element = "nothing pending")
    stopped = False
    T = case["tau0"]
    fired_once = False
    in_cb_until = None
    expiries = set()
    for idx, e in enumerate(tape):
        now, kind = e[1], e[2]
        # a pending, un-stopped expiry strictly before this action must have fired already
        if E is not None and not stopped:
            must = [x for x in E if x is not None]
            if None not in E and must and all(x < now and not same(x, now) for x in must):
                bad("expiry-missed", "a pending timer did not fire at its expiry", {"expiry": must, "now": now, "next_action": kind})
                return viol
        if kind == "create":
            E = {now + e[3]}
            expiries.add(now + e[3])
        elif kind == "stop":
            stats["calls"] += 1
            stats["stops"] += 1
            if e[3] == "cb":
                stats["stop_in_callback"] += 1
            if E and any(x is not None and same(x, now) for x in E):
                stats["calls_at_expiry_instant"] += 1
            stopped = True
        elif kind == "restart":
            stats["calls"] += 1
            tau = e[4]
            if any(same(x, now) for x in expiries):
                stats["calls_at_expiry_instant"] += 1
            if e[3] == "cb":
                stats["restart_in_callback"] += 1
                E = {now + tau}
            elif E is not None and None not in E and len(E) >= 1 and not (len(E) == 1 and None in E):
                stats["restart_pending"] += 1
                if any(x is not None and x > now for x in E):
                    stats["old_expiry_voided"] += 1
                E = {now + tau}
            else:
                # the one-shot timer has already fired (or nothing pending): open
                stats["restart_after_fired"] += 1
                E = {None, now + tau}
            expiries.add(now + tau)
            T = tau
        elif kind == "fire":
            stats["firings_checked"] += 1
            if stopped:
                bad("fired-after-stop", "the callback was invoked after stop()", {"now": now})
                return viol
            cands = [x for x in (E or ()) if x is not None]
            if not cands or not any(same(x, now) for x in cands):
                # classify
                earlier = [t2 for t2 in tape[:idx] if t2[2] == "fire" and same(t2[1], now)]
                if earlier and not case["auto"]:
                    mech = "fired-twice-for-one-expiry"
                elif any(same(x, now) for x in expiries):
                    mech = "fired-at-voided-expiry"
                else:
                    mech = "fired-at-wrong-time"
                bad(mech, "the callback was invoked at an instant that is not the pending expiry",
                    {"now": now, "pending": sorted(cands), "flavour": case["flavour"]})
                return viol
            if tuple(e[3]) != tuple(want_args) or dict(e[4]) != want_kw:
                bad("fired-with-wrong-arguments", "the callback did not receive the given arguments",
                    {"got": [list(e[3]), e[4]], "expected": [list(want_args), want_kw], "argform": form})
                return viol
            if case["auto"]:
                E = {now + T}
                expiries.add(now + T)
            else:
                E = {None}
    # end of run: pending, un-stopped expiry before the horizon must have fired
    if E is not None and not stopped and None not in E:
        must = [x for x in E if x is not None]
        if must and all(x < H and not same(x, H) for x in must):
            bad("expiry-missed", "a pending timer did not fire at its expiry (end of run)", {"expiry": must, "horizon": H})
    if stopped:
        # count a suppression when an expiry was pending at the stop
        stats["suppressed_by_stop"] += 1
    return viol


def one_case(ctx, case):
    import collections
    stats = collections.Counter({k: 0 for k in KEYS})
    viol = run_case(case, stats)
    for k in KEYS:
        ctx.count(k, stats[k])
    nt = (stats["calls_at_expiry_instant"] >= 1 or stats["restart_in_callback"] >= 1) and stats["firings_checked"] >= 2
    return viol, nt


def two_timer_case(ctx, rng):
    """timer A's callback acts on ANOTHER, still pending timer B (a retransmission timer re-arming its neighbour):
    for B this is a restart / stop from elsewhere like any other"""
    K = kern.RealK.load()
    from onl.utils import Timer
    env = K.Environment()
    TB = rng.choice([10, 7.5, 20])
    TA = rng.choice([1, 2, 4, 6])
    tau = rng.choice([2, 3, 8, 20, 0.5])
    act = rng.choice(["restart", "restart", "stop"])
    autoA = rng.random() < 0.4
    nmax = rng.randint(1, 3)
    firedB, firedA = [], []
    T = {}

    def cbB():
        firedB.append(env.now)

    def cbA():
        firedA.append(env.now)
        if len(firedA) <= nmax:
            if act == "restart":
                T["B"].restart(tau)
            else:
                T["B"].stop()
    T["B"] = Timer(env, TB, cbB)
    T["A"] = Timer(env, TA, cbA, auto_restart=autoA)
    case = {"probe": "two_timers", "TB": TB, "TA": TA, "tau": tau, "act": act, "autoA": autoA, "nmax": nmax}
    H = 60
    ctx.count("two_timer_cases")
    try:
        env.run(until=H)
    except BaseException as e:
        ctx.violation(f"exception:{type(e).__name__}@two-timers", "the run raised", repr(e)[:200], case)
        return
    # reference: B pending with expiry E; every action of A (at its firing instants) re-arms or stops it
    timesA = [TA * (k + 1) for k in range(nmax if autoA else 1)] if autoA else [TA]
    E, stopped, want, optional = TB, False, [], []
    fired_once = False
    for t in timesA[:nmax]:
        if E is not None and E == t and not stopped:
            ctx.count("two_timer_coincidences_not_judged")       # B's expiry and A's action in one instant: order not stated
            return
        if E is not None and E < t and not stopped:
            want.append(E)
            E = None
            fired_once = True
        if fired_once:
            # B is a one-shot timer that has fired: what a restart does then is not stated (it may fire again at r + tau)
            if act == "restart":
                optional.append(t + tau)
            continue
        if act == "stop":
            stopped = True
        else:
            E = t + tau
            stopped = False
    if E is not None and not stopped and E < H:
        want.append(E)
    extra = firedB[len(want):]
    if firedB[:len(want)] != want or any(x not in optional for x in extra):
        ctx.violation("fired-at-voided-expiry[restarted from another timer's callback]" if len(firedB) > len(want) else "expiry-missed[restarted from another timer's callback]",
                      "a pending timer restarted / stopped from inside ANOTHER timer's callback did not fire exactly at r + tau (and not at its old expiry)",
                      {"fired": firedB, "expected": want, "optional": optional}, case)


def attribute_cases(ctx, rng):
    """(a) two timers built with the SAME args list / kwargs dict, one stopped while the other is pending: the survivor
    still fires with the given arguments; (b) the public auto_restart flag reassigned after construction: a periodic timer
    whose callback clears it on its k-th tick fires exactly k times, a one-shot timer switched to periodic keeps firing"""
    K = kern.RealK.load()
    from onl.utils import Timer
    env = K.Environment()
    shared, kw = [rng.choice([7, "x", 0])], {"k": rng.choice([1, None])}
    given = (tuple(shared), dict(kw))          # what was given, noted before anything can tamper with the caller's objects
    log = []
    T = {}
    tau_a, tau_b = rng.choice([3, 5]), rng.choice([6, 8, 10])
    T["a"] = Timer(env, tau_a, lambda *a, **k: log.append(("a", env.now, a, dict(k))), args=shared, kwargs=kw)
    T["b"] = Timer(env, tau_b, lambda *a, **k: log.append(("b", env.now, a, dict(k))), args=shared, kwargs=kw)
    t_stop = rng.choice([1, 2, 2.5])

    def stopper(env):
        yield env.timeout(t_stop)
        T["a"].stop()
    env.process(stopper(env))
    kmax = rng.randint(1, 4)
    tau_p = rng.choice([1, 2.5])
    ticks = []

    def tick():
        ticks.append(env.now)
        if len(ticks) == kmax:
            T["p"].auto_restart = False          # the last tick
    T["p"] = Timer(env, tau_p, tick, auto_restart=True)
    made_periodic = []
    T["q"] = Timer(env, 50, lambda: made_periodic.append(env.now))

    def switcher(env):
        yield env.timeout(4)
        T["q"].auto_restart = True
        T["q"].restart(3)
    env.process(switcher(env))
    case = {"probe": "timer_attributes", "tau_a": tau_a, "tau_b": tau_b, "t_stop": t_stop, "kmax": kmax, "tau_p": tau_p}
    ctx.count("timer_attribute_cases")
    try:
        env.run(until=20)
    except BaseException as e:
        ctx.violation(f"exception:{type(e).__name__}@timer-attributes", "the run raised", repr(e)[:200], case)
        return
    want = [("b", tau_b, given[0], given[1])]
    if log != want:
        ctx.violation("fired-with-wrong-arguments[args object shared by two timers]" if [x[:2] for x in log] == [x[:2] for x in want] else "expiry-missed[args object shared by two timers]",
                      "of two timers built with the same args / kwargs objects one was stopped; the other must still fire with the given arguments",
                      {"fired": repr(log), "expected": repr(want)}, case)
    want_ticks = [tau_p * (k + 1) for k in range(kmax)]
    if ticks != want_ticks:
        ctx.violation("fired-after-auto-restart-was-cleared" if len(ticks) > kmax else "expiry-missed[auto_restart reassigned]",
                      "a periodic timer whose callback clears auto_restart on its k-th tick must fire exactly k times",
                      {"ticks": ticks[:10], "expected": want_ticks}, case)
    want_q = [7, 10, 13, 16, 19]
    if made_periodic != want_q:
        ctx.violation("expiry-missed[auto_restart reassigned]", "a one-shot timer switched to periodic and restarted must fire every timeout thereafter",
                      {"fired": made_periodic, "expected": want_q}, case)


def unreferenced_timer_probe(ctx):
    """a fire-and-forget Timer(env, tau, cb): the caller keeps no handle; it fires all the same"""
    import gc
    K = kern.RealK.load()
    from onl.utils import Timer
    for auto in (False, True):
        for tau in (5, 0.5):
            ctx.count("unreferenced_timer_probes")
            env = K.Environment()
            log = []
            Timer(env, tau, lambda: log.append(env.now), auto_restart=auto)
            gc.collect()
            try:
                env.run(until=tau * 3.5)
            except BaseException as e:
                ctx.violation(f"exception:{type(e).__name__}@unreferenced-timer", "the run raised", repr(e)[:200], {"probe": "unreferenced_timer"})
                continue
            want = [tau, 2 * tau, 3 * tau] if auto else [tau]
            if log != want:
                ctx.violation("expiry-missed[no reference kept by the caller]", "a timer nobody keeps a reference to did not fire at its expiry",
                              {"fired": log, "expected": want}, {"probe": "unreferenced_timer", "tau": tau, "auto": auto})


def run_shard(ctx):
    if ctx.shard == 0:
        unreferenced_timer_probe(ctx)
    for j in range(150 if ctx.tier == "quick" else 3000):
        two_timer_case(ctx, ctx.rng("two", j))
        if j % 5 == 0:
            attribute_cases(ctx, ctx.rng("attr", j))
    for i in ctx.cases(ncases(ctx.tier)):
        case = gen_case(ctx.rng(i), i)
        viol, nt = one_case(ctx, case)
        for m, what, wit in viol:
            ctx.violation(m, what, wit, case)
        ctx.case_done(case, nt)


def replay(ctx, case):
    viol, _ = one_case(ctx, case)
    for m, what, wit in viol:
        ctx.violation(m, what, wit, case)
