"""C13 -- static priority always serves the highest-priority backlogged flow.

Monitor: at every SP service decision (send_packet tap, action seq s, packet of priority p) the
shadow waiting set (arrived with seq < s, not yet decided) contains no packet whose flow has a
strictly higher priority value; plus the C12 time rules (no abort, exactly once, work conserving).
"""
from vlib import sched as vs
from checks import c12

PID = "C13"
LEVEL = "exploration"
ANCHORS = ["onl/scheduler/sp.py", "onl/scheduler/base.py"]
RULE = ("SP with 1-6 flows, priority tables over {1,2,3,3,5} (ties included), workloads that keep >= 2 priority levels "
        "backlogged (bursts at one instant, sustained overload, higher-priority arrivals during a lower-priority "
        "transmission and exactly at its end); non-trivial = >= 5 decisions were taken while >= 2 priority levels were "
        "backlogged; distinct by case hash")
ASSUMPTIONS = ["priorities are positive (the quantifier); the priority table is keyed by flow id"]
FLOORS = {"quick": {"decisions": 30000, "decisions_multi_level": 8000, "higher_arrived_during_lower_tx": 2000,
                    "lower_served_after_higher_emptied": 2000},
          "thorough": {"decisions": 600000, "decisions_multi_level": 160000, "higher_arrived_during_lower_tx": 40000,
                       "lower_served_after_higher_emptied": 40000}}
KEYS = tuple(FLOORS["quick"].keys()) + ("many_level_cases", "deep_queue_cases", "higher_arrived_between_pick_and_start", "back_to_back", "idle_then_arrival", "arrival_at_tx_end",
                                         "arrival_at_tx_end_after_departure")
# floors for the situations added with the later rounds of seeded changes (evidence that they were really exercised)
FLOORS["quick"].update({'higher_arrived_between_pick_and_start': 30, 'echoed_arrivals_inside_next_hop_put': 4000})
FLOORS["thorough"].update({'higher_arrived_between_pick_and_start': 150, 'echoed_arrivals_inside_next_hop_put': 20000})
FLOORS["quick"].update({'priority_table_object_reused_cases': 180})
FLOORS["thorough"].update({'priority_table_object_reused_cases': 900})
FLOORS["quick"].update({'deep_queue_cases': 40, 'many_level_cases': 40})
FLOORS["thorough"].update({'deep_queue_cases': 200, 'many_level_cases': 200})


def plan(tier):
    return {"shards": 4, "timeout": 900} if tier == "quick" else {"shards": 16, "timeout": 3400}


def ncases(tier):
    return 1200 if tier == "quick" else 30000


def gen_case(rng, i):
    n = rng.randint(6, 90)
    nflows = rng.randint(2, 6)
    if i % 20 == 3:
        nflows = rng.randint(17, 24)          # "any number of flows": more levels than any fixed number of bands
        n = rng.randint(40, 120)
    case = vs.gen_case(rng, "SP", n=n, static=(i % 5 == 0), nflows=nflows)
    if nflows >= 17:
        levels = list(range(1, nflows + 1))
        rng.shuffle(levels)
        case["cfg"]["table"] = {f: levels[k] for k, f in enumerate(case["cfg"]["flows"])}       # all levels distinct
        for a in case["arrivals"]:
            a["t"] = a["t"] / 6                   # overload: many levels backlogged at once
        case["many_levels"] = True
    if i % 20 == 11:
        # one low-priority queue that is very deep (70-130 packets at one instant) while higher-priority packets keep arriving
        tbl = case["cfg"]["table"]
        flows = case["cfg"]["flows"]
        low = min(flows, key=lambda f: tbl[f] if f in tbl else tbl[str(f)])
        size = case["arrivals"][0]["size"]
        deep = [{"t": 0, "flow": low, "size": size, "split": 0, "drv": 0, "age": 0} for _ in range(rng.randint(70, 130))]
        tx = size * 8.0 / case["cfg"]["rate"]
        rest = [dict(a, t=rng.randint(1, 60) * tx + rng.choice([0, tx / 2]), drv=1) for a in case["arrivals"][:30]]
        for a in rest:
            a.pop("late", None)
        case["arrivals"] = deep + sorted(rest, key=lambda a: a["t"])
        case["static"] = False
        case.pop("echo", None)
        case["deep_queue"] = True
    if i % 5 == 1:
        # sustained overload: compress the arrival times
        for a in case["arrivals"]:
            a["t"] = a["t"] / 8 if case["flavour"] == "exact" else a["t"] * 0.11
    return case


def priority_rule(run, stats, bad):
    """At every start of service no *certainly visible* higher-priority packet may be waiting.

    The boundary sees when SP hands a packet to transmission (send_packet), not when it picked it: SP takes the
    packet out of its queue and starts the transmission a few kernel steps later inside the same instant.  A packet
    that arrives in between is "waiting" at the tap although no scan could have seen it.  SP resumes in a later kernel
    step than the event that enabled the decision (the previous departure, or the arrival that ended the idle
    period), so everything that had arrived up to and including that step was certainly visible to the scan.
    So had every arrival whose delivering event was scheduled before that step (C01: within one instant events
    take effect in trigger order, and the scheduler's resumption is triggered in that step at the earliest).
    Arrivals triggered later inside the instant, before the tap, are counted, not judged (they are judged at the
    next start of service)."""
    prio = run.tbl
    arr = run.arr
    sched_of = run.net.sched_of          # kernel step in which the event that delivered an arrival was scheduled
    dec_iter = sorted(run.dec, key=lambda d: d[0])
    dep_seq = sorted((d[0], d[1]) for d in run.dep)
    ai = 0
    waiting = {}          # uid -> (flow, prio, arrival time, arrival seq)
    in_tx = None
    kdep = 0
    for d in dec_iter:
        while ai < len(arr) and arr[ai][0] < d[0]:
            a = arr[ai]
            waiting[a[3]] = (a[4], prio[a[4]], a[2], a[1], sched_of.get(a[3], a[1]))
            ai += 1
        while kdep < len(dep_seq) and dep_seq[kdep][0] < d[0]:
            kdep += 1
        prev_dep = dep_seq[kdep - 1][1] if kdep else -1      # kernel step of the previous departure
        u = d[3]
        if u not in waiting:
            bad("decided-packet-not-waiting", "a packet was handed to transmission that was not waiting", u)
            return
        oldest = min(x[3] for x in waiting.values())          # (incl. the packet served)
        f, p, _, _, _ = waiting.pop(u)
        levels = {x[1] for x in waiting.values()} | {p}
        if len(levels) >= 2:
            stats["decisions_multi_level"] += 1
        higher = [x for x in waiting.values() if x[1] > p]
        # (an arrival whose delivering event was already in the agenda when the decision was enabled precedes the
        # scheduler's own resumption, which is triggered later: events of one instant take effect in trigger order)
        E = max(prev_dep, oldest)
        # -- only when the decision follows a departure: after an idle period SP may be consuming a stale wake-up token,
        # i.e. already be on its way to the scan when the first packet arrives)
        busy = prev_dep >= oldest
        certain = [x for x in higher if x[3] <= E or (busy and x[4] < E)]
        if higher and not certain:
            stats["higher_arrived_between_pick_and_start"] += 1
        if certain:
            bad("lower-priority-served-while-higher-waits", "SP started transmitting a packet while a packet of a strictly higher priority was waiting",
                {"served_priority": p, "waiting_priority": certain[0][1], "now": d[2], "arrived_at": certain[0][2]})
            return
        if any(x[1] < p for x in waiting.values()) is False and in_tx is not None and in_tx > p:
            stats["lower_served_after_higher_emptied"] += 1
        in_tx = p
    # higher-priority arrivals during a lower-priority transmission (the transmission must complete)
    dep_t = {d[3]: d[2] for d in run.dep}
    for d in run.dec:
        p = prio[d[4]]
        for a in arr:
            if d[2] < a[2] < dep_t.get(d[3], -1) and prio[a[4]] > p:
                stats["higher_arrived_during_lower_tx"] += 1
                break


def one_case(ctx, case):
    import collections
    stats = collections.Counter({k: 0 for k in KEYS})
    run = vs.Run(case, counters=False).go()
    vs.count_features(ctx, run)
    stats["many_level_cases"] += bool(case.get("many_levels"))
    stats["deep_queue_cases"] += bool(case.get("deep_queue"))
    if not run.viol:
        c12.time_rules(run, stats, run.bad)
    if not run.viol:
        priority_rule(run, stats, run.bad)
    for k in KEYS:
        ctx.count(k, stats[k])
    return run.viol, stats["decisions_multi_level"] >= 5


def run_shard(ctx):
    for i in ctx.cases(ncases(ctx.tier)):
        case = gen_case(ctx.rng(i), i)
        viol, nt = one_case(ctx, case)
        for m, what, wit in viol:
            ctx.violation(m, what, wit, case)
        ctx.case_done(case, nt)


def replay(ctx, case):
    viol, _ = one_case(ctx, case)
    for m, what, wit in viol:
        ctx.violation(m, what, wit, case)
