"""C09 -- a port serialises at its line rate and tail-drops exactly at its limit.

Monitors (DESIGN.md 4/C09):
  * exact reference Port replayed over the tap log in action order (FIFO single server,
    start_k = max(arrival_k, dep_{k-1}), dep_k = start_k + 8*size/rate; rate 0 = same instant);
  * drop decision model: byte mode  refuse iff held_bytes + size > qlimit  (held = accepted and not
    yet tapped at the output, by action order);  packet mode  refuse iff waiting >= qlimit - 1
    with waiting = accepted packets that have not started transmission -- an arrival-to-idle
    packet whose service start cannot be seen from the boundary gives a lo/hi pair, tightened by
    the kernel-step index;  None never refuses;
  * counters: packets_received == arrivals == accepted + packets_dropped; byte_size == shadow of
    held bytes at every tap and every kernel step (also rate 0); perhop_time stamp;
  * PortMonitor samples against the reference timeline (strict off coincidences, range on them);
  * RED: EWMA recurrence, deterministic regions, Azuma bound on sum(drop_k - p_k).
"""
import math
import random

from vlib import net as vnet

PID = "C09"
LEVEL = "exploration"
ANCHORS = ["onl/netdev/port.py", "onl/netdev/red_port.py", "onl/netdev/port_monitor.py"]
RULE = ("random arrival workloads (bursts into an idle port, arrivals exactly at departures, exact-fill occupancies) x "
        "rate in {0, r} x qlimit in {None, 0, 1, 2, n} x byte/packet mode x element ids incl. '' and 0, packets with bytes payloads of other lengths than their size; PortMonitor with "
        "scripted sampling on and off coincidences; REDPort with small weight factors under sustained overload; "
        "non-trivial = at least one packet was dropped AND at least one waited behind another (Port), or the RED "
        "average visited the probabilistic region; distinct by case hash")
ASSUMPTIONS = ["a packet that arrives at an idle port starts transmission at an unobservable later kernel step of the same "
               "instant: both waiting counts are admissible for arrivals in that window",
               "perhop stamps are checked for every packet handed to a Port, refused ones included (REDPort's statement only covers the drop law)",
               "RED probabilistic regions are decided by an Azuma-Hoeffding bound with false-alarm budget 1e-12; at/above "
               "max_threshold the curve is read as 'at least max_probability'"]
FLOORS = {"quick": {"departures_checked": 20000, "drop_decisions_checked": 20000, "drops": 3000, "exact_fill_accepts": 200,
                    "byte_size_checks": 100000, "rate0_cases": 100, "qlimit_none_cases": 100, "stamps_checked": 10000,
                    "monitor_samples_strict": 3000, "monitor_samples_coincident": 300, "red_arrivals": 100000,
                    "red_prob_region_arrivals": 20000, "red_below_min": 5000, "red_above_limit": 2000,
                    "lohi_ambiguous": 100, "arrival_at_departure_instant": 1000},
          "thorough": {"departures_checked": 400000, "drop_decisions_checked": 400000, "drops": 60000,
                       "exact_fill_accepts": 4000, "byte_size_checks": 2000000, "rate0_cases": 2000,
                       "qlimit_none_cases": 2000, "stamps_checked": 200000, "monitor_samples_strict": 60000,
                       "monitor_samples_coincident": 6000, "red_arrivals": 2000000, "red_prob_region_arrivals": 400000,
                       "red_below_min": 100000, "red_above_limit": 40000, "lohi_ambiguous": 2000,
                       "arrival_at_departure_instant": 20000}}
KEYS = tuple(FLOORS["quick"].keys()) + ("monitor_cases", "red_cases", "port_cases", "red_certain_drops_checked", "long_history_cases", "big_clock_cases", "zero_size_packets", "reentry_cases", "reentries", "puts_before_the_run", "rate_reassignments", "terminal_port_cases", "payload_length_differs_from_size")
# floors for the situations added with the later rounds of seeded changes (evidence that they were really exercised)
FLOORS["quick"].update({'reentries': 150})
FLOORS["thorough"].update({'reentries': 750})
FLOORS["quick"].update({'puts_before_the_run': 15, 'rate_reassignments': 12})
FLOORS["thorough"].update({'puts_before_the_run': 75, 'rate_reassignments': 60})
FLOORS["quick"].update({'terminal_port_cases': 20})
FLOORS["thorough"].update({'terminal_port_cases': 100})
FLOORS["quick"].update({'payload_length_differs_from_size': 1000})
FLOORS["thorough"].update({'payload_length_differs_from_size': 5000})


def plan(tier):
    return {"shards": 4, "timeout": 900} if tier == "quick" else {"shards": 16, "timeout": 3400}


def ncases(tier):
    return 700 if tier == "quick" else 12000


def gen_case(rng, i):
    if i % 25 == 0:
        return gen_red(rng)
    if i % 25 == 13:
        return gen_reentry(rng)
    if i % 25 == 19:
        return gen_terminal(rng)
    flavour = "exact" if rng.random() < 0.7 else "float"
    sizes = rng.choice([[100], [100, 200], [64, 128, 256], [100, 250, 1000], [0, 100], [0, 64, 128]])
    rate = rng.choice([0, 800, 800, 1600, 6400, 1000]) if flavour == "exact" else rng.choice([0, 1000, 3000, 777])
    limit_bytes = rng.random() < 0.5
    if limit_bytes:
        qlimit = rng.choice([None, 0, min(sizes), max(sizes), 2 * max(sizes), sum(sizes), 3 * max(sizes) + min(sizes), 1000])
    else:
        qlimit = rng.choice([None, 0, 1, 2, 2, 3, 4, 6])
    n = rng.randint(4, 70)
    long_history = (i % 40 == 7)
    if long_history:
        n = rng.choice([4200, 5000, 8300])           # one Port object that has seen thousands of packets
    arr = vnet.gen_arrivals(rng, 2, flavour, n, sizes, None, burst_p=0.45)
    if rate and flavour == "exact" and rng.random() < 0.6:
        # arrivals exactly at transmission ends: put arrivals on multiples of one transmission time
        tx = sizes[0] * 8 / rate
        t = 0
        for a in arr:
            a["t"] = t
            t += rng.choice([0, 0, tx, tx, 2 * tx, tx / 2])
    case = {"kind": "port", "flavour": flavour, "rate": rate, "qlimit": qlimit, "limit_bytes": limit_bytes,
            "element_id": rng.choice(["p1", "", 0, "sw.0", 7]), "arrivals": arr, "long_history": long_history,
            "t0": rng.choice([0, 0, 0, 2 ** 20, 1.7e9 if flavour == "float" else 2 ** 30])}
    for a in arr:
        a["t"] += case["t0"]
    if rng.random() < 0.2:
        # packets carrying application data: what a port charges and serialises is the packet's size, not len(payload)
        for a in arr:
            if rng.random() < 0.7:
                a["payload_len"] = rng.choice([0, 1, max(1, a["size"] // 2), 2 * a["size"] + 3, 4000])
        case["payloads"] = sum(1 for a in arr if "payload_len" in a)
    if rng.random() < 0.35 and not long_history:
        offs = rng.random() < 0.5
        case["monitor"] = {"included": rng.random() < 0.5,
                           "samples": [rng.choice([0.37, 0.61, 1.13]) if offs else rng.choice([0.25, 0.5, 1, 0.125])
                                       for _ in range(60)]}
    return case


def gen_reentry(rng):
    """a port whose next hop hands some packets back to the same port -- at once, from inside its own put() (an
    ack-clocked peer), or after a delay (a loop in the topology): the same Packet object passes the hop again"""
    sizes = rng.choice([[100], [100, 200], [64, 128, 256]])
    rate = rng.choice([0, 800, 1600, 6400])
    qlimit = rng.choice([None, None, 2 * max(sizes), 3 * max(sizes) + min(sizes), 1000])
    arr = vnet.gen_arrivals(rng, 2, "exact", rng.randint(3, 25), sizes, None, burst_p=0.45)
    back = {}
    for k in range(len(arr) * 3):
        if rng.random() < 0.4:
            back[str(k)] = rng.choice(["sync", "sync", 0, 0.25, 1, 3])      # what happens to the k-th departure
    case = {"kind": "reentry", "rate": rate, "qlimit": qlimit, "element_id": rng.choice(["p1", "", 0, 7]),
            "arrivals": arr, "back": back}
    if rng.random() < 0.4:
        # packets handed to the port before the simulation has processed its first event
        case["prestart"] = rng.randint(1, 3)
    if rate and rng.random() < 0.4:
        # the public `rate` attribute is reassigned while the simulation runs (at instants off the arrival grid)
        tmax = max(a["t"] for a in arr) + 5
        case["rate_changes"] = sorted([round(rng.uniform(0.1, tmax) + 0.0123, 4), rng.choice([800, 1600, 3200, 6400, 400])]
                                      for _ in range(rng.randint(1, 3)))
    return case


def run_reentry(case, stats):
    import collections
    from onl.netdev import Port
    viol = []
    net = vnet.Net(0)
    env = net.env
    rate, qlimit, eid = case["rate"], case["qlimit"], case["element_id"]
    port = Port(env, rate, qlimit, True, eid)
    orig = port.put
    st = {"held": 0, "dep_prev": None, "ndep": 0, "passes": 0}
    expected = collections.deque()
    stats["reentry_cases"] += 1

    def bad(m, what, wit=None):
        if len(viol) < 4:
            viol.append((m, what, wit))

    def check_bytes(where):
        stats["byte_size_checks"] += 1
        if port.byte_size != st["held"]:
            bad("byte-size-not-bytes-held", "the advertised byte occupancy differs from the bytes of packets accepted and not yet departed",
                {"byte_size": port.byte_size, "held": st["held"], "where": where, "rate": rate})
            st["held"] = port.byte_size

    def put(p):
        a = env.now
        d0 = port.packets_dropped
        must_drop = qlimit is not None and st["held"] + p.size > qlimit
        orig(p)
        dropped = port.packets_dropped - d0
        stats["drop_decisions_checked"] += 1
        if bool(dropped) != must_drop:
            bad("drop-decision-wrong[bytes]", "a packet was refused / accepted against the byte rule (bytes held + size > qlimit)",
                {"held": st["held"], "size": p.size, "qlimit": qlimit, "dropped": bool(dropped), "re-entry": p.perhop_time.get("passes")})
        if dropped:
            stats["drops"] += 1
            return
        st["held"] += p.size
        expected.append((p, a))
        stats["stamps_checked"] += 1
        if p.perhop_time.get(eid, "missing") != a:
            bad("perhop-stamp-missing-or-wrong", "an accepted packet is not stamped with its arrival time under the port's element id",
                {"element_id": repr(eid), "stamp": repr(p.perhop_time.get(eid, "missing")), "arrival": a, "pass": "repeated" if id(p) in seen else "first"})
        seen.add(id(p))
        check_bytes("put")

    seen = set()
    keep = []
    changes = [tuple(c) for c in case.get("rate_changes", [])]

    def rate_at(t):
        r = rate
        for tc, rc in changes:
            if tc <= t:
                r = rc
        return r

    def reconfigure():
        last = 0
        for tc, rc in changes:
            yield env.timeout(tc - last)
            last = tc
            port.rate = rc
            stats["rate_reassignments"] += 1
    if changes:
        env.process(reconfigure())

    class Peer:
        def put(self, p):
            keep.append(p)
            k = st["ndep"]
            st["ndep"] += 1
            if not expected:
                bad("refused-packet-forwarded", "a packet left the port that was not held", None)
                return
            q, a = expected.popleft()
            # the transmission began at max(arrival, previous departure) and lasts 8*size/(the rate in force then)
            start = a if st["dep_prev"] is None or st["dep_prev"] <= a else st["dep_prev"]
            r_s = rate_at(start)
            dep = start + (q.size * 8 / r_s) if r_s > 0 else start
            st["dep_prev"] = env.now
            stats["departures_checked"] += 1
            if q is not p:
                bad("output-not-accepted-sequence", "the packets leaving the port are not exactly the accepted packets in FIFO order", None)
            elif env.now != dep:
                bad("departure-time-wrong", "the k-th accepted packet did not leave at max(arrival, previous departure) + 8*size/rate",
                    {"k": k, "expected": dep, "got": env.now, "rate": rate})
            st["held"] -= p.size
            check_bytes("out")           # the departing packet is no longer held when the next hop sees it
            how = case["back"].get(str(k))
            if how is None or st["passes"] >= 3 * len(case["arrivals"]):
                return
            st["passes"] += 1
            stats["reentries"] += 1
            if how == "sync":
                port.put(p)
            else:
                def later(p=p, how=how):
                    yield env.timeout(how)
                    port.put(p)
                env.process(later())

    port.put = put
    port.out = Peer()
    env.post_hooks.append(lambda e: check_bytes("step"))
    arrivals = case["arrivals"]
    npre = case.get("prestart", 0)
    if npre:
        for k, a in enumerate(arrivals[:npre]):
            port.put(net.make_packet(a["flow"], a["size"], 9000 + k))       # before env.run() / env.step() was ever called
            stats["puts_before_the_run"] += 1
        arrivals = arrivals[npre:]
    net.drivers(port, arrivals)
    err = net.run()
    if err:
        bad(err, "the run raised", net.errors[-1] if net.errors else err)
        return viol
    if expected:
        bad("accepted-packet-never-left", "at the end of the run an accepted packet has not left the port", len(expected))
    return viol


def gen_terminal(rng):
    """a port without a next hop (out = None: a terminal or not yet attached port): packets are transmitted and vanish;
    occupancy, counters and the drop rule are the same"""
    sizes = rng.choice([[100], [100, 200], [64, 128, 256]])
    return {"kind": "terminal", "rate": rng.choice([800, 1600, 6400, 0]), "qlimit": rng.choice([None, 2 * max(sizes), 3 * max(sizes) + min(sizes), 1000]),
            "element_id": rng.choice(["p1", 0]), "arrivals": vnet.gen_arrivals(rng, 2, "exact", rng.randint(4, 30), sizes, None, burst_p=0.45)}


def run_terminal(case, stats):
    from onl.netdev import Port
    viol = []
    net = vnet.Net(0)
    env = net.env
    rate, qlimit = case["rate"], case["qlimit"]
    port = Port(env, rate, qlimit, True, case["element_id"])
    port.out = None
    orig = port.put
    acc = []            # (reference departure instant, size) of the accepted packets
    st = {"dep_prev": None}
    stats["terminal_port_cases"] += 1

    def bad(m, what, wit=None):
        if len(viol) < 4:
            viol.append((m, what, wit))

    def held(now, strict):
        # bytes of accepted packets that have not yet departed by the reference (at the departure instant itself: both)
        return sum(s for d, s in acc if (d > now if strict else d >= now))

    def put(p):
        a = env.now
        lo, hi = held(a, True), held(a, False)
        d0 = port.packets_dropped
        orig(p)
        dropped = port.packets_dropped - d0
        stats["drop_decisions_checked"] += 1
        if qlimit is not None:
            if dropped and hi + p.size <= qlimit:
                bad("drop-decision-wrong[bytes]", "a packet was refused although bytes held + size <= qlimit", {"held": hi, "size": p.size, "qlimit": qlimit, "next_hop": None})
            if not dropped and lo + p.size > qlimit:
                bad("drop-decision-wrong[bytes]", "a packet was accepted although bytes held + size > qlimit", {"held": lo, "size": p.size, "qlimit": qlimit, "next_hop": None})
        elif dropped:
            bad("drop-decision-wrong[bytes]", "a port without limit refused a packet", None)
        if dropped:
            stats["drops"] += 1
            return
        start = a if st["dep_prev"] is None or st["dep_prev"] <= a else st["dep_prev"]
        dep = start + (p.size * 8 / rate) if rate > 0 else start
        st["dep_prev"] = dep
        acc.append((dep, p.size))

    def quiescent(e):
        # the clock is about to advance: every transmission due at or before now has ended
        stats["byte_size_checks"] += 1
        if port.byte_size != held(env.now, True):
            bad("byte-size-not-bytes-held", "the advertised byte occupancy differs from the bytes of packets accepted and not yet departed",
                {"byte_size": port.byte_size, "held": held(env.now, True), "where": "clock advance", "next_hop": None})
    port.put = put
    env.advance_hooks.append(quiescent)
    net.drivers(port, case["arrivals"])
    err = net.run()
    if err:
        bad(err, "the run raised", net.errors[-1] if net.errors else err)
        return viol
    if port.byte_size != 0:
        bad("byte-size-not-bytes-held", "at the end of the run the port still advertises bytes", {"byte_size": port.byte_size, "next_hop": None})
    return viol


def gen_red(rng):
    wf = rng.choice([1, 2, 3, 4])
    limit_bytes = rng.random() < 0.4
    unit = 100 if limit_bytes else 1
    shape = rng.choice(["ramp", "ramp", "step", "narrow"])
    min_th = rng.choice([2, 3, 4]) * unit
    if shape == "ramp":
        max_th = min_th + rng.choice([2, 4, 6]) * unit
    elif shape == "step":
        max_th = min_th                                   # no ramp at all: min_threshold == max_threshold
    else:
        max_th = min_th + rng.choice([0.25, 0.5]) * unit  # thresholds less than one unit apart
    qlimit = max_th + rng.choice([1, 3, 6]) * unit
    return {"kind": "red", "flavour": "float", "rate": rng.choice([800, 1600]), "qlimit": qlimit, "limit_bytes": limit_bytes,
            "min_th": min_th, "max_th": max_th, "max_p": rng.choice([0.1, 0.3, 0.5, 1.0, 1.0]), "wf": wf,
            "element_id": "red", "n": 15000, "rseed": rng.randrange(1 << 30),
            "load": rng.choice([0.9, 1.0, 1.1, 1.3, 2.0]), "shape": shape}


# ---------------------------------------------------------------------------
def run_port(case, stats):
    from onl.netdev import Port, PortMonitor
    viol = []
    net = vnet.Net(case.get("t0", 0))
    env, tape = net.env, net.tape
    if case.get("long_history"):
        stats["long_history_cases"] += 1
    if case.get("t0"):
        stats["big_clock_cases"] += 1
    port = Port(env, case["rate"], case["qlimit"], case["limit_bytes"], case["element_id"])
    sink = net.recorder("sink")
    port.out = sink
    orig = port.put
    shadow = {"held": 0}

    def bad(m, what, wit=None):
        if len(viol) < 4:
            viol.append((m, what, wit))

    def put(p):
        u = net.pk.register(p)
        d0, r0 = port.packets_dropped, port.packets_received
        tape.rec("in", "port", u, p.size)
        orig(p)
        dropped = port.packets_dropped - d0
        if dropped not in (0, 1) or port.packets_received - r0 != 1:
            bad("counters-wrong-step", "packets_received / packets_dropped did not advance by exactly 1 / 0-or-1 on an arrival",
                {"dropped_delta": dropped, "received_delta": port.packets_received - r0})
        tape.rec("post", "port", u, bool(dropped))
        if not dropped:
            shadow["held"] += p.size
        check_bytes("put")

    def check_bytes(where):
        stats["byte_size_checks"] += 1
        if port.byte_size != shadow["held"]:
            bad("byte-size-not-bytes-held", "the advertised byte occupancy differs from the bytes of packets accepted and not yet departed",
                {"byte_size": port.byte_size, "held": shadow["held"], "where": where, "rate": case["rate"]})
            shadow["held"] = port.byte_size

    port.put = put
    oput = sink.put

    def sput(p):
        shadow["held"] -= p.size
        oput(p)
        check_bytes("out")

    sink.put = sput
    env.post_hooks.append(lambda e: check_bytes("step"))
    net.drivers(port, case["arrivals"])
    mon = None
    horizon = None
    if "monitor" in case:
        stats["monitor_cases"] += 1
        dist = vnet.Script(case["monitor"]["samples"], net, "sample")
        mon = PortMonitor(env, port, dist, pkt_in_service_included=case["monitor"]["included"])
        env.process(mon.run())
        last = max(a["t"] for a in case["arrivals"])
        horizon = last + 40

    err = net.run(until=horizon)
    if err:
        bad(err, "the run raised", net.errors[-1] if net.errors else err)
        return viol
    stats["port_cases"] += 1
    stats["payload_length_differs_from_size"] += case.get("payloads", 0)
    if case["rate"] == 0:
        stats["rate0_cases"] += 1
    if case["qlimit"] is None:
        stats["qlimit_none_cases"] += 1
    # ---- offline: reference port over the tap log
    ins = {e[5]: e for e in tape.of("port", "in")}
    posts = tape.of("port", "post")
    outs = tape.of("sink", "out")
    rate, qlimit = case["rate"], case["qlimit"]
    accepted = [e for e in posts if not e[6]]
    ndrop = sum(1 for e in posts if e[6])
    stats["drops"] += ndrop
    if port.packets_received != len(posts) or port.packets_dropped != ndrop:
        bad("counters-inconsistent", "packets_received != accepted + packets_dropped", None)
    # departures: exactly the accepted packets, in order, at the reference instants
    if horizon is None and [e[5] for e in outs] != [e[5] for e in accepted]:
        bad("output-not-accepted-sequence", "the packets leaving the port are not exactly the accepted packets in FIFO order",
            {"accepted": [e[5] for e in accepted][:12], "out": [e[5] for e in outs][:12]})
        return viol
    dep_prev = None
    ref = {}
    for k, e in enumerate(accepted):
        u = e[5]
        a = ins[u][2]
        start = a if dep_prev is None or dep_prev <= a else dep_prev
        dep = start + (ins[u][6] * 8 / rate) if rate > 0 else start
        ref[u] = (a, start, dep)
        dep_prev = dep
    for k, o in enumerate(outs):
        u = o[5]
        if u not in ref:
            bad("refused-packet-forwarded", "a packet that was refused (or never entered) left the port", u)
            continue
        stats["departures_checked"] += 1
        if o[2] != ref[u][2]:
            bad("departure-time-wrong", "the k-th accepted packet did not leave at max(arrival, previous departure) + 8*size/rate",
                {"k": k, "arrival": ref[u][0], "start": ref[u][1], "expected": ref[u][2], "got": o[2], "rate": rate})
            break
    # stamps: "each packet is stamped with its arrival time at this hop" -- the refused ones too
    for e in posts:
        p = net.pk.objs[e[5]]
        stats["stamps_checked"] += 1
        if p.perhop_time.get(case["element_id"], "missing") != ins[e[5]][2]:
            bad("perhop-stamp-missing-or-wrong", "a packet is not stamped with its arrival time under the port's element id",
                {"element_id": repr(case["element_id"]), "stamp": repr(p.perhop_time), "arrival": ins[e[5]][2], "refused": bool(e[6])})
            break
    # drop decisions in action order
    out_seq = {o[5]: o[0] for o in outs}
    acc_list = []      # (uid, size, in_seq, in_step, arrival) in acceptance order
    prefix = [0]       # prefix sums of sizes of acc_list
    first_held = 0     # FIFO: the packets still held at any action point are a suffix of acc_list
    dep_times = {r[2] for r in ref.values()}
    INF_SEQ = 1 << 60
    for e in posts:
        u, dropped = e[5], e[6]
        i = ins[u]
        seq, step, now, size = i[0], i[1], i[2], i[6]
        while first_held < len(acc_list) and out_seq.get(acc_list[first_held][0], INF_SEQ) < seq:
            first_held += 1
        nheld = len(acc_list) - first_held
        held_bytes = prefix[-1] - prefix[first_held]
        if now in dep_times:
            stats["arrival_at_departure_instant"] += 1
        # waiting = accepted and not yet started.  Every held packet behind the first one is waiting (its
        # predecessor is still there).  The first held packet has started unless it arrived to a port with
        # nothing ahead and its (unobservable) start has not happened yet: it starts at a later kernel step
        # of its own arrival instant.
        lo = hi = max(0, nheld - 1)
        if nheld:
            x = acc_list[first_held]
            if first_held == 0:
                idle_arrival = True
            else:
                idle_arrival = out_seq.get(acc_list[first_held - 1][0], INF_SEQ) < x[2]
            if idle_arrival:
                if x[3] == step:
                    lo += 1
                    hi += 1                               # same synchronous burst: cannot have started
                elif x[4] == now:
                    hi += 1                               # same instant, later step: may or may not have started
            # else: its predecessor's departure was tapped, so it started in that very action slot
        if lo != hi:
            stats["lohi_ambiguous"] += 1
        stats["drop_decisions_checked"] += 1
        if size == 0:
            stats["zero_size_packets"] += 1
        if qlimit is None:
            want = {False}
        elif case["limit_bytes"]:
            want = {held_bytes + size > qlimit}
            if held_bytes + size == qlimit and not dropped:
                stats["exact_fill_accepts"] += 1
        else:
            want = {lo >= qlimit - 1, hi >= qlimit - 1}
            if not dropped and hi == qlimit - 2:
                stats["exact_fill_accepts"] += 1
        if dropped not in want:
            bad("drop-decision-wrong[bytes]" if case["limit_bytes"] else ("drop-decision-wrong[none]" if qlimit is None else "drop-decision-wrong[packets]"),
                "a packet was refused/accepted against the limit rule",
                {"dropped": dropped, "qlimit": qlimit, "held_bytes": held_bytes, "size": size, "waiting_lo_hi": [lo, hi],
                 "limit_bytes": case["limit_bytes"], "now": now})
            break
        if not dropped:
            acc_list.append((u, size, seq, step, now))
            prefix.append(prefix[-1] + size)
    # occupancy never exceeds the limit (bytes) -- follows from the decisions, checked directly on the shadow
    # ---- PortMonitor
    if mon is not None:
        tau = case.get("t0", 0)
        inc = case["monitor"]["included"]
        alla = sorted(ref.values())
        for k, (cnt, byt) in enumerate(zip(mon.sizes, mon.sizes_byte)):
            tau = tau + case["monitor"]["samples"][k % len(case["monitor"]["samples"])]
            waiting = [(u, r) for u, r in ref.items() if r[0] <= tau < r[1]]
            serving = [(u, r) for u, r in ref.items() if r[1] <= tau < r[2]]
            wb = sum(ins[u][6] for u, _ in waiting)
            sb = sum(ins[u][6] for u, _ in serving)
            exp_cnt = len(waiting) + (len(serving) if inc else 0)
            exp_byt = wb + (sb if inc else 0)
            coincide = [r for r in ref.values() if tau in r]
            if not coincide:
                stats["monitor_samples_strict"] += 1
                if cnt != exp_cnt or byt != exp_byt:
                    bad("port-monitor-sample-wrong[included]" if inc else "port-monitor-sample-wrong[excluded]",
                        "a PortMonitor sample differs from the reference occupancy",
                        {"tau": tau, "got": [cnt, byt], "expected": [exp_cnt, exp_byt], "included": inc})
                    break
            else:
                stats["monitor_samples_coincident"] += 1
                m = len(coincide)
                big = max(ins[u][6] for u in ref) if ref else 0
                if not (exp_cnt - m - 1 <= cnt <= exp_cnt + m + 1) or not (exp_byt - (m + 1) * big <= byt <= exp_byt + (m + 1) * big):
                    bad("port-monitor-sample-wrong[coincident]", "a PortMonitor sample at a coincidence is outside the admissible range",
                        {"tau": tau, "got": [cnt, byt], "around": [exp_cnt, exp_byt]})
                    break
    return viol


# ---------------------------------------------------------------------------
def run_red(case, stats):
    from onl.netdev.red_port import REDPort
    viol = []
    net = vnet.Net()
    env, tape = net.env, net.tape
    random.seed(case["rseed"])
    rng = random.Random(case["rseed"] + 1)
    port = REDPort(env, case["rate"], case["max_th"], case["min_th"], case["max_p"], case["element_id"], case["qlimit"],
                   weight_factor=case["wf"], limit_bytes=case["limit_bytes"])
    sink = net.recorder("sink")
    port.out = sink
    stats["red_cases"] += 1
    shadow = {"held": 0, "avg": 0.0}
    alpha = 2 ** (-case["wf"])
    acc = {"sum_p": 0.0, "drops": 0, "n": 0, "sum_p_hi": 0.0, "drops_hi": 0, "n_hi": 0}

    def bad(m, what, wit=None):
        if len(viol) < 4:
            viol.append((m, what, wit))

    oput = sink.put

    def sput(p):
        shadow["held"] -= p.size
        oput(p)

    sink.put = sput
    size = 100
    tx = size * 8 / case["rate"]

    def source():
        n = 0
        phase = 0
        while n < case["n"]:
            # alternate idle stretches (average decays) and overload stretches (average climbs)
            phase += 1
            burst = rng.randint(200, 900)
            load = case["load"] if phase % 3 else 0.3
            for _ in range(burst):
                yield env.timeout(rng.expovariate(1.0) * tx / load)
                n += 1
                p = net.make_packet(0, size, n)
                q = port.byte_size if case["limit_bytes"] else len(port.store.items)
                d0, r0 = port.packets_dropped, port.packets_received
                if port.byte_size != shadow["held"]:
                    bad("byte-size-not-bytes-held[red]", "REDPort byte_size differs from the bytes of packets accepted and not yet departed",
                        {"byte_size": port.byte_size, "held": shadow["held"]})
                    return
                port.put(p)
                dropped = port.packets_dropped - d0
                stats["red_arrivals"] += 1
                avg = shadow["avg"] * (1 - alpha) + q * alpha
                shadow["avg"] = avg
                if not vnet.close(port.average_queue_size, avg):
                    bad("red-average-not-ewma", "average_queue_size does not follow avg*(1-2^-n) + q*2^-n",
                        {"got": port.average_queue_size, "expected": avg, "q": q})
                    return
                if port.packets_received - r0 != 1 or dropped not in (0, 1):
                    bad("counters-wrong-step[red]", "REDPort counters did not advance by exactly one arrival", None)
                    return
                if not dropped:
                    shadow["held"] += size
                if avg < case["min_th"]:
                    stats["red_below_min"] += 1
                    if dropped:
                        bad("red-drop-below-min-threshold", "REDPort dropped although the average queue is below min_threshold",
                            {"avg": avg, "min_th": case["min_th"]})
                        return
                elif avg >= case["qlimit"]:
                    stats["red_above_limit"] += 1
                    if not dropped:
                        bad("red-accept-at-or-above-qlimit", "REDPort accepted although the average queue is at/above qlimit",
                            {"avg": avg, "qlimit": case["qlimit"]})
                        return
                elif avg >= case["max_th"]:
                    acc["n_hi"] += 1
                    acc["sum_p_hi"] += case["max_p"]
                    acc["drops_hi"] += dropped
                    if case["max_p"] >= 1.0:
                        stats["red_certain_drops_checked"] += 1
                        if not dropped:
                            bad("red-accept-at-max-threshold-with-probability-1",
                                "REDPort accepted a packet at/above max_threshold although max_probability is 1",
                                {"avg": avg, "max_th": case["max_th"], "min_th": case["min_th"]})
                            return
                else:
                    pk = case["max_p"] * (avg - case["min_th"]) / (case["max_th"] - case["min_th"])
                    acc["n"] += 1
                    acc["sum_p"] += pk
                    acc["drops"] += dropped

    env.process(source())
    err = net.run()
    if err:
        bad(err, "the run raised", net.errors[-1] if net.errors else err)
        return viol, acc
    stats["red_prob_region_arrivals"] += acc["n"] + acc["n_hi"]
    delta = 1e-12
    if acc["n"]:
        bound = math.sqrt(2 * acc["n"] * math.log(2 / delta))
        if abs(acc["drops"] - acc["sum_p"]) > bound:
            bad("red-drop-frequency-off-curve", "drops between min and max threshold are inconsistent with the RED curve (Azuma bound)",
                {"n": acc["n"], "drops": acc["drops"], "expected": acc["sum_p"], "bound": bound})
    if acc["n_hi"]:
        bound = math.sqrt(2 * acc["n_hi"] * math.log(1 / delta))
        if acc["drops_hi"] < acc["sum_p_hi"] - bound:
            bad("red-drop-frequency-below-max-probability", "drops at/above max_threshold are rarer than max_probability (one-sided bound)",
                {"n": acc["n_hi"], "drops": acc["drops_hi"], "expected_at_least": acc["sum_p_hi"], "bound": bound})
    if port.packets_received != port.packets_dropped + len(sink.got) + len(port.store.items) + (1 if port.busy else 0):
        bad("counters-inconsistent[red]", "packets_received != forwarded + dropped + held", None)
    return viol, acc


def one_case(ctx, case):
    import collections
    stats = collections.Counter({k: 0 for k in KEYS})
    if case["kind"] == "terminal":
        viol = run_terminal(case, stats)
        nt = stats["drop_decisions_checked"] >= 4
    elif case["kind"] == "reentry":
        viol = run_reentry(case, stats)
        nt = stats["reentries"] >= 2
    elif case["kind"] == "port":
        viol = run_port(case, stats)
        nt = stats["drops"] >= 1 and any(True for _ in [0]) and stats["departures_checked"] >= 2
        nt = nt and stats["drop_decisions_checked"] > stats["drops"]
    else:
        viol, acc = run_red(case, stats)
        nt = acc["n"] >= 100
    for k in KEYS:
        ctx.count(k, stats[k])
    return viol, nt


def run_shard(ctx):
    for i in ctx.cases(ncases(ctx.tier)):
        case = gen_case(ctx.rng(i), i)
        viol, nt = one_case(ctx, case)
        for m, what, wit in viol:
            ctx.violation(m, what, wit, case)
        ctx.case_done(case, nt)


def replay(ctx, case):
    viol, _ = one_case(ctx, case)
    for m, what, wit in viol:
        ctx.violation(m, what, wit, case)
