"""C07 -- containers and stores are bounded, conservative, ordered, never strand a request.

Monitors (DESIGN.md 4/C07): conservation ledger (level = init + granted puts - granted gets; every
accepted item held or delivered exactly once, by identity), order oracles (Store FIFO,
PriorityStore min-first, FilterStore first match in insertion order), strict FCFS among puts and
among gets (FilterStore getters exempt), head-of-queue-unsatisfiable check at every clock advance
(I1 advance hook) with a reference satisfiability predicate on the public state.
Items are harness objects with a deliberately coarse __eq__ (equal-but-distinct), so identity vs
equality matters.
"""
import collections

from vlib import kern

PID = "C07"
LEVEL = "exploration"
ANCHORS = ["onl/sim/resources/container.py", "onl/sim/resources/store.py", "onl/sim/resources/base.py"]
RULE = ("random put/get/cancel histories on Container / Store / PriorityStore / FilterStore (capacities incl. 1 "
        "and inf, initial levels, amounts from a small set so exact fills occur, equal-but-distinct items, filters "
        "that match nothing for a while and filters that answer with truthy / falsy non-bool values, 1-8 processes with patience time-outs, context-manager exits and pokes "
        "that cancel waiting requests -- in particular the head of a queue behind which a smaller request waits); "
        "non-trivial = some request waited, some waiting request was cancelled and >= 6 requests were granted; "
        "distinct by case hash")
ASSUMPTIONS = ["a put/get that was granted before its cancel took effect counts as granted (cancel is a no-op then)",
               "FCFS is read strictly (no overtaking within a kind) except for FilterStore getters"]
FLOORS = {"quick": {"grants": 20000, "advance_checks": 15000, "cancels_waiting": 2000, "head_cancelled_with_follower": 200,
                    "deliveries_checked": 5000, "equal_distinct_deliveries": 300, "fcfs_checks": 3000,
                    "level_checks": 50000, "filter_nomatch_waits": 200, "prio_deliveries_from_4plus": 500},
          "thorough": {"grants": 400000, "advance_checks": 300000, "cancels_waiting": 40000,
                       "head_cancelled_with_follower": 4000, "deliveries_checked": 100000,
                       "equal_distinct_deliveries": 6000, "fcfs_checks": 60000, "level_checks": 1000000,
                       "filter_nomatch_waits": 4000, "prio_deliveries_from_4plus": 2000}}
# floors for the situations added with the later rounds of seeded changes (evidence that they were really exercised)
FLOORS["quick"].update({'priorityitem_puts': 3000, 'same_object_put_again': 1000})
FLOORS["thorough"].update({'priorityitem_puts': 15000, 'same_object_put_again': 5000})
FLOORS["quick"].update({'exact_amount_cases': 200, 'requests_kept_after_timeout': 2500})
FLOORS["thorough"].update({'exact_amount_cases': 1000, 'requests_kept_after_timeout': 12500})
FLOORS["quick"].update({'refused_amounts': 1000, 'with_exits_by_interrupt_on_granted': 300})
FLOORS["thorough"].update({'refused_amounts': 5000, 'with_exits_by_interrupt_on_granted': 1500})
FLOORS["quick"].update({'filter_accepted_with_truthy_non_bool': 2000})
FLOORS["thorough"].update({'filter_accepted_with_truthy_non_bool': 10000})
GRID = [0, 0, 1, 1, 2, 3, 0.5]
INF = float("inf")


def plan(tier):
    return {"shards": 4, "timeout": 600} if tier == "quick" else {"shards": 16, "timeout": 3400}


def ncases(tier):
    return 6000 if tier == "quick" else 60000


class Item:
    """equal-but-distinct: compares (and hashes) by key only"""
    __slots__ = ("key", "uid")

    def __init__(self, key, uid):
        self.key, self.uid = key, uid

    def __eq__(self, o):
        return isinstance(o, Item) and self.key == o.key

    def __lt__(self, o):
        return self.key < o.key

    def __hash__(self):
        return hash(self.key)

    def __repr__(self):
        return f"Item(k={self.key},u={self.uid})"


def U(x):
    """uid of a stored object: an Item, or a library PriorityItem(priority, payload) whose payload is a dict"""
    return x.uid if isinstance(x, Item) else x.item["uid"]


def is_item(x):
    return isinstance(x, Item) or (hasattr(x, "priority") and hasattr(x, "item") and isinstance(x.item, dict) and "uid" in x.item)


def LT(a, b):
    """must `a` leave a PriorityStore before `b`?  Items order by key; PriorityItems by priority only (their
    payloads are not orderable and play no role)"""
    if isinstance(a, Item):
        return a < b
    return a.priority < b.priority


FILTERS = ["any", "key1", "key2", "key3", "odd", "mod3", "mod3", "never"]


TRUTHY = [0]          # evaluations of a filter that accepted with a value other than the object True


def _counted(v):
    if v and v is not True:
        TRUTHY[0] += 1
    return v


def make_filter(name, env):
    """filters as users write them: some answer with a bool, some with any truthy / falsy value (a bit mask, a match
    object, the item itself or None) -- a filter accepts an item when its answer is true in the Python sense"""
    if name == "any":
        return lambda it: True
    if name == "key1":
        return lambda it: it.key == 1
    if name == "key2":
        return lambda it: _counted(("tagged", it.key) if it.key == 2 else None)
    if name == "odd":
        return lambda it: _counted(it.uid & 1)
    if name == "mod3":
        return lambda it: it.uid % 3 == 0
    if name == "key3":
        return lambda it: _counted(it.key == 3 and "yes")
    return lambda it: False


def gen_case(rng):
    kind = rng.choice(["Container", "Container", "Store", "PriorityStore", "FilterStore", "FilterStore"])
    nproc = rng.randint(1, 8)
    amounts = [1, 1, 2, 3, 5]
    if kind == "Container":
        cap = rng.choice([1, 3, 5, 10, 10, INF])
        init = rng.choice([0, 0, 1, 2, 5, 8])
        if init > cap:
            init = cap if cap != INF else 0
        if rng.random() < 0.3:
            # continuous matter: fractions, tiny amounts, amounts that miss the level / the free room by less
            # than any "tolerance" (the guards of the statement are exact)
            amounts = [0.5, 0.25, 1.5, 5e-10, 1e-12, 1.0000000005, 0.1, 0.2, 0.30000000000000004, 2]
            cap = rng.choice([1, 1.5, 3, 0.3])
            init = rng.choice([0, 0, cap, 0.5 if cap >= 0.5 else 0])
    else:
        cap = rng.choice([1, 2, 3, 3, INF])
        init = 0
    exact = None
    if kind == "Container" and amounts[0] != 0.5 and rng.random() < 0.2:
        # amounts that no float can hold: integers beyond 2**53, or thirds -- the level arithmetic is exact
        exact = rng.choice(["bigint", "fraction"])
    procs = []
    deep = kind == "PriorityStore" and rng.random() < 0.6      # many items held at once: exercises the heap
    if deep:
        cap = INF
    for pi in range(nproc):
        its = []
        bias = rng.random() if not deep else (0.9 if pi % 2 == 0 else 0.3)
        for _ in range(rng.randint(1, 6) if not deep else rng.randint(4, 9)):
            its.append({
                "delay": rng.choice(GRID) if not deep else rng.choice([0, 0, 0, 1]),
                "op": "put" if rng.random() < bias else "get",
                "amount": rng.choice(amounts),
                "key": rng.choice([1, 1, 2, 3]) if not deep else rng.randint(1, 9),
                "filter": rng.choice(FILTERS) if rng.random() < 0.8 else "any",
                "patience": rng.choice([None, None, 0, 1, 2, 3]),
                "form": rng.choice(["plain", "with"]),
                "reput": kind in ("Store", "FilterStore") and rng.random() < 0.12,
                "keep": rng.random() < 0.2,
                "neg": (rng.choice(["neg", "zero"]) if kind == "Container" and rng.random() < 0.06 else None),      # after the patience ran out: keep the request and wait for it again
            })
        procs.append(its)
    pokes = [[rng.choice([0.5, 1, 2, 3, 4, 5]), rng.randrange(nproc)] for _ in range(rng.randint(0, 4))]
    return {"kind": kind, "capacity": "inf" if cap == INF else cap, "init": init, "procs": procs, "pokes": sorted(pokes),
            "float_amounts": amounts[0] == 0.5, "exact_amounts": exact, "wrap": kind == "PriorityStore" and rng.random() < 0.3}


class Ledger:
    def __init__(self, res, kind, cap, init, env, stats):
        self.res, self.kind, self.cap, self.env, self.stats = res, kind, cap, env, stats
        self.viol = []
        self.level = init
        self.held = []           # accepted, not delivered -- items in acceptance order
        self.delivered = collections.Counter()   # uid -> times handed to a getter
        self.accepted = collections.Counter()    # uid -> times accepted
        self.pending = []        # shadow records of requests not yet granted / cancelled
        self.seq = 0
        self.keep = []
        self.waited = 0

    def bad(self, mech, what, wit=None):
        if len(self.viol) < 4:
            self.viol.append((f"{mech}[{self.kind}]", what, wit))

    def new(self, ev, op, it, item=None, flt=None, fname=None):
        self.seq += 1
        rec = {"seq": self.seq, "ev": ev, "op": op, "amount": it["amount"], "item": item, "flt": flt,
               "fname": fname, "state": "waiting", "t": self.env.now}
        self.pending.append(rec)
        self.keep.append(ev)
        return rec

    def satisfiable(self, rec):
        """reference predicate on the *public* state"""
        res = self.res
        if self.kind == "Container":
            if rec["op"] == "put":
                return rec["amount"] <= res.capacity - res.level
            return rec["amount"] <= res.level
        if rec["op"] == "put":
            return len(res.items) < res.capacity
        if self.kind == "FilterStore":
            return any(rec["flt"](x) for x in res.items)
        return len(res.items) > 0

    def sync(self, where):
        res, st = self.res, self.stats
        newly = [r for r in self.pending if r["ev"].triggered]
        if newly:
            self.pending = [r for r in self.pending if not r["ev"].triggered]
            kinds = {r["op"] for r in newly}
            mixed = len(kinds) > 1
            if mixed:
                st["mixed_syncs"] += 1
            for r in sorted(newly, key=lambda r: (r["op"] != "put", r["seq"])):
                r["state"] = "granted"
                st["grants"] += 1
                if r["t"] < self.env.now:
                    st["granted_after_waiting"] += 1
                self.apply(r, mixed)
            # strict FCFS within a kind (FilterStore getters exempt)
            for r in newly:
                if self.kind == "FilterStore" and r["op"] == "get":
                    continue
                st["fcfs_checks"] += 1
                for w in self.pending:
                    if w["op"] == r["op"] and w["seq"] < r["seq"]:
                        self.bad(f"later-{r['op']}-overtook-earlier", "a later request was granted while an earlier one of the same kind waits",
                                 {"granted_seq": r["seq"], "waiting_seq": w["seq"], "where": where})
                        break
        # bounds and conservation on the public state
        st["level_checks"] += 1
        if self.kind == "Container":
            lv = res.level
            if lv < 0 or lv > res.capacity:
                self.bad("level-out-of-bounds", "a container's level left [0, capacity]", {"level": lv, "capacity": str(res.capacity)})
            if lv != self.level:
                self.bad("level-not-conserved", "level != initial level + granted puts - granted gets",
                         {"level": lv, "expected": self.level, "where": where})
        else:
            items = res.items
            if len(items) > res.capacity:
                self.bad("store-over-capacity", "a store holds more items than its capacity", {"n": len(items), "capacity": str(res.capacity)})
            if len(items) != len(self.held) or sorted(map(id, items)) != sorted(map(id, self.held)):
                self.bad("held-set-mismatch", "the items a store holds are not exactly the accepted-and-undelivered items (identity)",
                         {"store": [repr(x) for x in items], "expected": [repr(x) for x in self.held], "where": where})
                self.held = list(items)      # resynchronise so that one defect is reported once

    def apply(self, r, mixed):
        st = self.stats
        if self.kind == "Container":
            self.level += r["amount"] if r["op"] == "put" else -r["amount"]
            return
        if r["op"] == "put":
            it = r["item"]
            if r.get("was_accepted"):
                self.bad("item-accepted-twice", "one put was accepted twice", repr(it))
            r["was_accepted"] = True
            self.accepted[U(it)] += 1           # (one object may legitimately be put, and accepted, several times)
            self.held.append(it)
            return
        got = r["ev"].value
        st["deliveries_checked"] += 1
        if not is_item(got) or U(got) not in self.accepted:
            self.bad("invented-item", "a getter received something that was never accepted", repr(got))
            return
        if self.delivered[U(got)] >= self.accepted[U(got)]:
            self.bad("item-delivered-twice", "one item was handed to two getters (or twice)", repr(got))
            return
        self.delivered[U(got)] += 1
        idx = next((i for i, h in enumerate(self.held) if h is got), None)
        if idx is None:
            self.bad("delivered-item-not-held", "a getter received an item that is not held", repr(got))
            return
        if any(h is not got and h == got for h in self.held):
            st["equal_distinct_deliveries"] += 1
        if self.kind == "PriorityStore" and len(self.held) >= 4:
            st["prio_deliveries_from_4plus"] += 1
        if not mixed:
            if self.kind == "Store" and idx != 0:
                self.bad("not-fifo", "a Store delivered an item that is not the oldest held one",
                         {"got": repr(got), "oldest": repr(self.held[0])})
            elif self.kind == "PriorityStore" and any(LT(h, got) for h in self.held):
                self.bad("not-min-first", "a PriorityStore delivered an item although a smaller one is held",
                         {"got": repr(got), "held": [repr(h) for h in self.held]})
            elif self.kind == "FilterStore":
                flt = r["flt"]
                if not flt(got):
                    self.bad("filter-rejected-item-delivered", "a FilterStore delivered an item its filter rejects", repr(got))
                first = next((h for h in self.held if flt(h)), None)
                if first is not got:
                    self.bad("not-first-match", "a FilterStore delivered an item that is not the first match in insertion order",
                             {"got": repr(got), "first_match": repr(first)})
        del self.held[idx]

    def quiescent(self, env):
        self.sync("advance")
        self.stats["advance_checks"] += 1
        for op in ("put", "get"):
            q = [r for r in self.pending if r["op"] == op]
            if not q:
                continue
            self.stats["advance_with_waiters"] += 1
            head = q[0]
            if self.kind == "FilterStore" and op == "get" and not self.satisfiable(head) and len(self.res.items):
                self.stats["filter_nomatch_waits"] += 1
            if self.kind == "FilterStore" and op == "get":
                # "only FilterStore lets a later getter overtake one whose filter matches nothing": a later
                # getter whose filter matches a held item must not be left waiting across a clock advance
                for later in q[1:]:
                    self.stats["filter_later_getter_checks"] += 1
                    if self.satisfiable(later):
                        self.bad("filterstore-later-getter-stranded",
                                 "the clock advanced while a FilterStore getter whose filter matches a held item was left waiting behind getters that match nothing",
                                 {"now": env.now, "filter": later["fname"], "items": [repr(x) for x in self.res.items][:6],
                                  "older_filters": [x["fname"] for x in q if x["seq"] < later["seq"]][:5]})
                        break
            if self.satisfiable(head):
                self.bad(f"oldest-{op}-satisfiable-at-clock-advance",
                         "the clock advanced while the oldest pending request could be satisfied in the current state",
                         {"now": env.now, "amount": head["amount"], "level": getattr(self.res, "level", None),
                          "items": len(getattr(self.res, "items", [])), "capacity": str(self.res.capacity),
                          "after_cancel": self.stats["cancels_waiting"] > 0})


def run_case(case, stats):
    K = kern.RealK.load()
    from onl.sim import Container, Store, PriorityStore, FilterStore, Interrupt
    from onl.sim.resources.store import PriorityItem
    Env = kern.make_monenv(K.Environment)
    env = Env()
    kind = case["kind"]
    if case.get("exact_amounts"):
        # every amount, the capacity and the initial level scaled into a number type no float can hold
        import copy
        from fractions import Fraction
        A = (lambda x: x * (2 ** 53 + 1)) if case["exact_amounts"] == "bigint" else (lambda x: Fraction(x, 3))
        case = copy.deepcopy(case)
        case["init"] = A(case["init"])
        if case["capacity"] != "inf":
            case["capacity"] = A(case["capacity"])
        for its in case["procs"]:
            for it in its:
                it["amount"] = A(it["amount"])
        stats["exact_amount_cases"] += 1
    cap = INF if case["capacity"] == "inf" else case["capacity"]
    if kind == "Container":
        res = Container(env, cap, case["init"])
    else:
        res = {"Store": Store, "PriorityStore": PriorityStore, "FilterStore": FilterStore}[kind](env, cap)
    lg = Ledger(res, kind, cap, case["init"], env, stats)
    env.post_hooks.append(lambda e: lg.sync("step"))
    env.advance_hooks.append(lg.quiescent)
    procs = []
    uid = [0]

    def wait(ev):
        try:
            v = yield ev
            return ("ok", v)
        except Interrupt as it:
            return ("int", it.cause)

    def user(pid, its):
        mine = []
        for it in its:
            yield from wait(env.timeout(it["delay"]))
            lg.sync("pre-op")
            item = flt = fname = None
            if kind == "Container" and it.get("neg"):
                # a non-positive amount is refused with ValueError -- and leaves no trace (level, queues)
                stats["refused_amounts"] += 1
                q0 = (len(res.put_queue), len(res.get_queue), res.level)
                try:
                    (res.put if it["op"] == "put" else res.get)(-it["amount"] if it["neg"] == "neg" else 0)
                    lg.bad("non-positive-amount-accepted", "a put / get with a non-positive amount was not refused with ValueError", it["op"])
                except ValueError:
                    pass
                if (len(res.put_queue), len(res.get_queue), res.level) != q0:
                    lg.bad("refused-request-left-a-trace", "a put / get refused with ValueError changed the level or stayed queued",
                           {"before": repr(q0), "after": repr((len(res.put_queue), len(res.get_queue), res.level))})
                lg.sync("refused")
                continue
            if it["op"] == "put":
                if kind == "Container":
                    ev = res.put(it["amount"])
                else:
                    if it.get("reput") and mine:
                        item = mine[-1]            # the same object once more (a retransmitted packet, a shared token)
                        stats["same_object_put_again"] += 1
                    else:
                        uid[0] += 1
                        if case.get("wrap"):
                            # the library's PriorityItem with an unorderable payload: ordered by priority alone
                            item = PriorityItem(it["key"], {"uid": uid[0]})
                            stats["priorityitem_puts"] += 1
                        else:
                            item = Item(it["key"], uid[0])
                    mine.append(item)
                    ev = res.put(item)
            else:
                if kind == "Container":
                    ev = res.get(it["amount"])
                elif kind == "FilterStore":
                    fname = it["filter"]
                    flt = make_filter(fname, env)
                    ev = res.get(flt)
                else:
                    ev = res.get()
            rec = lg.new(ev, it["op"], it, item, flt, fname)
            if it["form"] == "with":
                ev.__enter__()
            lg.sync("op")
            if ev.triggered and ev.processed is False:
                pass
            if it["patience"] is None:
                r = yield from wait(ev)
            else:
                r = yield from wait(ev | env.timeout(it["patience"]))
            lg.sync("after-wait")
            if not ev.triggered and it.get("keep") and it["patience"] is not None and r[0] == "ok":
                # the timeout of `request | timeout` won; the request is neither cancelled nor given up: waited for again
                stats["requests_kept_after_timeout"] += 1
                r = yield from wait(ev)
                lg.sync("after-second-wait")
            if not ev.triggered:
                # cancel a still-waiting request; is it the head of its queue with a follower?
                same = [x for x in lg.pending if x["op"] == rec["op"]]
                if same and same[0] is rec and len(same) > 1:
                    stats["head_cancelled_with_follower"] += 1
                if it["form"] == "with":
                    ev.__exit__(None, None, None)
                else:
                    ev.cancel()
                if ev.triggered:
                    lg.bad("cancel-triggered-request", "cancel() of a waiting request triggered it", pid)
                rec["state"] = "cancelled"
                lg.pending = [x for x in lg.pending if x is not rec]
                stats["cancels_waiting"] += 1
                lg.waited += 1
                lg.sync("cancel")
            else:
                if it["form"] == "with" and r[0] == "int":
                    # the with-block is left by the Interrupt that was thrown into it: a no-op on a granted request,
                    # whatever the exception (the granted item / amount stays with this process)
                    ev.__exit__(Interrupt, Interrupt(r[1]), None)
                    stats["with_exits_by_interrupt_on_granted"] += 1
                elif it["form"] == "with":
                    ev.__exit__(None, None, None)      # no-op once granted
                elif r[0] == "int" or not ev.processed:
                    ev.cancel()                          # no-op once granted
                    stats["cancel_noop_granted"] += 1
                lg.sync("post")

    def poker():
        last = 0
        for t, pid in case["pokes"]:
            if t > last:
                yield env.timeout(t - last)
                last = t
            p = procs[pid]
            if p.is_alive:
                try:
                    p.interrupt("poke")
                    stats["pokes"] += 1
                except RuntimeError:
                    pass

    for pid, its in enumerate(case["procs"]):
        procs.append(env.process(user(pid, its)))
    env.process(poker())
    try:
        env.run()
    except Exception as e:
        import traceback
        tb = traceback.extract_tb(e.__traceback__)
        where = next((f"{f.filename.split('/onl/')[-1]}:{f.name}" for f in reversed(tb) if "/onl/" in f.filename), "harness")
        lg.viol.append((f"exception:{type(e).__name__}@{where}[{kind}]", "the run raised", repr(e)[:300]))
    lg.quiescent(env)
    # at the end: every accepted item is delivered once or still held once
    if kind != "Container":
        for u in lg.accepted:
            n = lg.delivered[u] + sum(1 for h in res.items if is_item(h) and U(h) == u)
            if n != lg.accepted[u]:
                lg.bad("item-lost-or-duplicated", "an accepted item is neither delivered exactly once nor still held exactly once",
                       {"uid": u, "accepted": lg.accepted[u], "delivered": lg.delivered[u],
                        "held": sum(1 for h in res.items if is_item(h) and U(h) == u)})
                break
    return lg


KEYS = ("grants", "advance_checks", "cancels_waiting", "head_cancelled_with_follower", "deliveries_checked",
        "equal_distinct_deliveries", "fcfs_checks", "level_checks", "mixed_syncs", "granted_after_waiting",
        "advance_with_waiters", "cancel_noop_granted", "pokes", "filter_nomatch_waits", "prio_deliveries_from_4plus", "filter_later_getter_checks",
        "same_object_put_again", "priorityitem_puts", "requests_kept_after_timeout", "exact_amount_cases", "refused_amounts", "with_exits_by_interrupt_on_granted", "filter_accepted_with_truthy_non_bool")


def one_case(ctx, case):
    import collections
    stats = collections.Counter({k: 0 for k in KEYS})
    TRUTHY[0] = 0
    lg = run_case(case, stats)
    stats["filter_accepted_with_truthy_non_bool"] = TRUTHY[0]
    for k in KEYS:
        ctx.count(k, stats[k])
    ctx.count("kind_" + case["kind"])
    if case.get("float_amounts"):
        ctx.count("container_float_amount_cases")
    nt = stats["granted_after_waiting"] >= 1 and stats["cancels_waiting"] >= 1 and stats["grants"] >= 6
    return lg.viol, nt


def run_shard(ctx):
    for i in ctx.cases(ncases(ctx.tier)):
        case = gen_case(ctx.rng(i))
        viol, nt = one_case(ctx, case)
        for m, what, wit in viol:
            ctx.violation(m, what, wit, case)
        ctx.case_done(case, nt)


def replay(ctx, case):
    viol, _ = one_case(ctx, case)
    for m, what, wit in viol:
        ctx.violation(m, what, wit, case)
