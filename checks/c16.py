"""C16 -- TCP acknowledgements are cumulative and correct; all data gets through.

Sink oracle: independent interval set; for every arriving segment the returned ACK must equal the
length of the contiguous prefix [0, n) received so far, hence never decrease.  Workload: every
arrival sequence of length <= 6 over 4 MSS segments (exhaustive, with duplicates, gaps, missing
first segment) plus random longer sequences with odd sizes and overlaps.

Sender oracle (the liveness clause restated as bounded progress): the path applies a scripted
drop pattern by transmission index to data and ACK packets; after the last scripted fault the run
must reach "sink holds [0, size) contiguously and sender.last_ack == size" within a horizon of
simulated time far beyond every RTO doubling the faults can cause, without raising.
Fault enumeration: all patterns of <= 2 (quick) / <= 3 (thorough) drops over the first N+4 data
and N+4 ACK transmission indices, Reno and CUBIC, several delays and initial RTT estimates; plus
random patterns on longer flows.  Loss-free + RTT < RTO: no sequence number is sent twice.
"""
import itertools

from vlib import net as vnet

PID = "C16"
LEVEL = "fault_enumeration"
ANCHORS = ["onl/packet/tcp_sink.py", "onl/packet/tcp_generator.py", "onl/utils/timer.py"]
RULE = ("sink: all sequences of <= 6 arrivals over 4 segments (exhaustive) + random sequences of 10-40 arrivals with "
        "odd sizes; sender: flows of N in {1,2,3,5,8(,12)} MSS segments x every drop pattern with <= 2 (quick) / <= 3 "
        "(thorough) drops over the first N+4 data and N+4 ACK transmission indices x {Reno, CUBIC} x path delays x initial "
        "RTT estimates, plus random finite drop patterns on flows up to 200 segments, flows ended by a finite finish_time (application-limited or cut short) with losses near the end, bursts losing one segment or its ACK 17-22 times in a row; non-trivial = the pattern dropped at "
        "least one packet that was actually transmitted (sender) / the sequence had a gap or duplicate (sink); distinct by case hash")
ASSUMPTIONS = ["'keeps (re)transmitting until ...' (liveness) is decided as bounded progress: completion within 10^6 simulated "
               "seconds / 2*10^5 kernel steps after finitely many scripted faults",
               "paths are wires with constant delay; faults are drops and extra delays (which reorder) of single transmissions, by transmission index",
               "for a flow that ends by its finish_time 'the data' is what the sender has transmitted at least once (its next_seq) when the flow has ended"]
EXHAUSTIVE = "sink arrival sequences of length <= 6 over 4 segments; patterns of <= 2 (quick) / <= 3 (thorough) drops, and of <= 2 extra delays (two magnitudes), over the first N+4 data and ACK transmission indices"
FLOORS = {"quick": {"sink_acks_checked": 30000, "sink_sequences": 5000, "sender_runs": 2000, "sender_completed": 2000,
                    "faults_applied": 3000, "data_drops_applied": 1000, "ack_drops_applied": 1000, "delays_applied": 2000, "timeouts_seen": 1000,
                    "fast_retransmits_seen": 30, "lossfree_runs": 10, "exhaustive_spaces": 5, "cc_TCPCubic": 500,
                    "cc_TCPReno": 500},
          "thorough": {"sink_acks_checked": 100000, "sink_sequences": 10000, "sender_runs": 40000, "sender_completed": 40000,
                       "faults_applied": 80000, "data_drops_applied": 30000, "ack_drops_applied": 30000, "delays_applied": 40000,
                       "timeouts_seen": 30000, "fast_retransmits_seen": 2000, "lossfree_runs": 60,
                       "exhaustive_spaces": 40, "cc_TCPCubic": 10000, "cc_TCPReno": 10000}}
KEYS = tuple(FLOORS["quick"].keys()) + ("unusual_config_runs", "sink_long_hole_sequences", "random_pattern_runs", "dup_transmissions", "drained_after_completion", "slow_path_runs", "large_flow_id_or_rational_rtt_runs", "sink_prefixes_beyond_4GiB", "tiny_rtt_estimate_runs", "finite_finish_time_runs", "retransmissions_after_finish_time", "loss_burst_runs")
# floors for the situations added with the later rounds of seeded changes (evidence that they were really exercised)
FLOORS["quick"].update({'slow_path_runs': 16})
FLOORS["thorough"].update({'slow_path_runs': 100})
FLOORS["quick"].update({'large_flow_id_or_rational_rtt_runs': 24})
FLOORS["thorough"].update({'large_flow_id_or_rational_rtt_runs': 200})
FLOORS["quick"].update({'sink_prefixes_beyond_4GiB': 8, 'tiny_rtt_estimate_runs': 8})
FLOORS["thorough"].update({'sink_prefixes_beyond_4GiB': 16, 'tiny_rtt_estimate_runs': 60})
FLOORS["quick"].update({'finite_finish_time_runs': 200, 'retransmissions_after_finish_time': 100, 'loss_burst_runs': 40})
FLOORS["thorough"].update({'finite_finish_time_runs': 3000, 'retransmissions_after_finish_time': 1500, 'loss_burst_runs': 500})
MSS = 512


def plan(tier):
    return {"shards": 8, "timeout": 1500} if tier == "quick" else {"shards": 16, "timeout": 3400}


# ---------------------------------------------------------------------------
# sink
# ---------------------------------------------------------------------------
def prefix_len(ranges):
    """length of the contiguous prefix [0, n) of a set of half-open ranges (independent model)"""
    n = 0
    for s, e in sorted(ranges):
        if s > n:
            break
        n = max(n, e)
    return n


def sink_case(seq, stats, bad):
    """seq: list of (start, size)"""
    from onl.packet import TCPSink, Packet
    net = vnet.Net()
    sink = TCPSink(net.env, rec_waits=False, rec_arrivals=False)
    acks = net.recorder("acks")
    sink.out = acks
    got = []
    last = 0
    for k, (start, size) in enumerate(seq):
        p = Packet(0, size, start, flow_id=3)
        try:
            sink.put(p)
        except Exception as e:
            bad(f"exception:{type(e).__name__}@TCPSink.put", "the sink raised", repr(e)[:200])
            return
        got.append((start, start + size))
        want = prefix_len(got)
        stats["sink_acks_checked"] += 1
        if len(acks.got) != k + 1:
            bad("sink-ack-count-wrong", "the sink did not return exactly one ACK per arriving segment", k)
            return
        a = acks.got[-1][2]
        if a.ack != want:
            mech = "sink-ack-decreased" if a.ack < last else "sink-ack-not-contiguous-prefix"
            bad(mech, "the ACK number is not the length of the contiguous byte prefix received so far",
                {"arrivals": [list(x) for x in seq[:k + 1]], "ack": a.ack, "expected": want})
            return
        if a.flow_id != 3 + 10000:
            bad("sink-ack-wrong-flow", "the ACK does not carry flow id + 10000", a.flow_id)
            return
        last = a.ack
    stats["sink_sequences"] += 1


def sink_part(ctx, stats, bad):
    if ctx.shard == 0:
        segs = [0, 1, 2, 3]
        for L in range(1, 7):
            for seq in itertools.product(segs, repeat=L):
                sink_case([(s * MSS, MSS) for s in seq], stats, bad)
        stats["exhaustive_spaces"] += 1
    rng = ctx.rng("sink")
    # long runs behind a hole (a receiver that stops buffering far ahead of the hole would ACK short later)
    for n in (rng.choice([100, 130, 200, 300, 520]), rng.choice([127, 128, 129, 256, 400])):
        hole = rng.choice([0, 0, 1, 5])
        seq = [(k * MSS, MSS) for k in range(n) if k != hole]
        if rng.random() < 0.5:
            rng.shuffle(seq)
        seq.append((hole * MSS, MSS))
        sink_case(seq, stats, bad)
        stats["sink_long_hole_sequences"] += 1
    # prefixes of more than 2**32 bytes (sequence numbers are plain numbers, not 32-bit header fields)
    G = 2 ** 30
    for base in (3 * G, 4 * G - 3 * MSS):
        seq = [(0, base)] + [(base + k * MSS, MSS) for k in range(8)]
        tail = seq[1:]
        rng.shuffle(tail)
        seq = [seq[0]] + tail + [rng.choice(tail)]
        sink_case(seq, stats, bad)
        stats["sink_prefixes_beyond_4GiB"] += 1
    for _ in range(400):
        n = rng.randint(10, 40)
        seq = []
        for _ in range(n):
            if rng.random() < 0.7:
                seq.append((rng.randrange(0, 12) * MSS, MSS))
            else:
                seq.append((rng.randrange(0, 5000), rng.choice([1, 40, 100, 512, 700, 1500])))
        sink_case(seq, stats, bad)


# ---------------------------------------------------------------------------
# sender
# ---------------------------------------------------------------------------
class DropTap:
    """applies the scripted fault pattern by transmission index -- drop, or hold back for an extra
    delay (which lets later packets overtake) -- and records everything"""

    def __init__(self, net, name, drops, delays=None):
        self.net, self.name, self.drops = net, name, set(drops)
        self.delays = {int(k): v for k, v in (delays or {}).items()}
        self.n = 0
        self.out = None
        self.log = []         # (index, now, packet_id, ack, dropped)
        self.applied = 0
        self.delayed = 0

    def put(self, p):
        i = self.n
        self.n += 1
        d = i in self.drops
        self.log.append((i, self.net.env.now, p.packet_id, getattr(p, "ack", 0), d))
        if d:
            self.applied += 1
            return
        if i in self.delays:
            self.delayed += 1
            env, out, extra = self.net.env, self.out, self.delays[i]

            def later():
                yield env.timeout(extra)
                out.put(p)
            env.process(later())
            return
        self.out.put(p)


def sender_case(case, stats, bad):
    from onl.packet import TCPPacketGenerator, TCPSink, TCPReno, TCPCubic, Flow
    from onl.netdev import Wire
    net = vnet.Net()
    env = net.env
    size = case["n"] * MSS
    fid = case.get("flow_id", 1)
    if fid > 256:
        fid = int(str(fid))            # (not the interned small int: equal, but a different object than any literal)
    fin, app = case.get("finish"), case.get("app")
    if app:
        # an application-limited flow that ends at its finish_time: "the data" is what the sender has sent by then
        flow = Flow(flow_id=fid, src="s", dst="d", start_time=0, finish_time=fin, size=None,
                    arrival_dist=lambda: app["gap"], size_dist=lambda: app["chunk"])
    elif fin is not None:
        flow = Flow(flow_id=fid, src="s", dst="d", start_time=0, finish_time=fin, size=size)     # (cut short: not all of it is sent)
    else:
        flow = Flow(flow_id=fid, src="s", dst="d", start_time=0, finish_time=float("inf"), size=size)
    if case["cc"] == "TCPReno":
        cc = TCPReno(ssthresh=case["ssthresh0"]) if "ssthresh0" in case else TCPReno()
    else:
        cc = TCPCubic()
    from vlib import kern as _k
    sender = TCPPacketGenerator(env, flow=flow, cc=cc, rtt_estimate=_k.num(case["rtt0"]))      # ("p/q" = an exact Fraction)
    sink = TCPSink(env, rec_waits=False, rec_arrivals=False)
    dtap = DropTap(net, "data", case["data_drops"], case.get("data_delays"))
    atap = DropTap(net, "ack", case["ack_drops"], case.get("ack_delays"))
    delay = case["delay"]
    w1, w2 = Wire(env, lambda: delay), Wire(env, lambda: delay)
    sender.out = dtap
    dtap.out = w1
    w1.out = sink
    sink.out = atap
    atap.out = w2
    w2.out = sender
    stats["sender_runs"] += 1
    stats["cc_" + case["cc"]] += 1
    HORIZON, CAP = 1e6, 200000

    settle = 0.0 if fin is None else fin + 2 * (app["gap"] if app else 0.0) + 1.0

    def done():
        end = size if fin is None else sender.next_seq
        return (end > 0 and (env.now >= settle or env.peek() == float("inf")) and sender.last_ack == end and sink.recv_buffer and sink.recv_buffer[0][0] == 0
                and sink.recv_buffer[0][1] >= end)

    err = None
    import signal
    signal.signal(signal.SIGVTALRM, vnet._on_budget)
    signal.setitimer(signal.ITIMER_VIRTUAL, vnet.CPU_BUDGET_S, 5.0)
    try:
        t_done = None
        min_rto = sender.rto
        while env.peek() != float("inf") and env.steps < CAP:
            if env.peek() > (HORIZON if t_done is None else t_done + 2000.0):
                break
            env.step()
            if sender.rto < min_rto:
                min_rto = sender.rto
            if t_done is None and sender.last_ack == (size if fin is None else sender.next_seq) and done():
                t_done = env.now      # keep running: "the run never raises" also holds after completion
        if t_done is not None and env.peek() == float("inf"):
            stats["drained_after_completion"] += 1
    except Exception as e:
        root = e
        while root.__cause__ is not None:
            root = root.__cause__
        import traceback
        tb = traceback.extract_tb(root.__traceback__)
        where = next((f"{f.filename.split('/onl/')[-1]}:{f.name}" for f in reversed(tb)
                      if "/onl/" in f.filename and "/onl/sim/" not in f.filename), "kernel")
        err = f"exception:{type(root).__name__}@{where}"
        if isinstance(root, vnet.CpuBudgetExceeded):
            err = f"no-progress:cpu-budget-exhausted@{where}"
        bad(err, "the run raised", {"exc": repr(root)[:200], "now": env.now})
    finally:
        signal.setitimer(signal.ITIMER_VIRTUAL, 0)
    stats["faults_applied"] += dtap.applied + atap.applied + dtap.delayed + atap.delayed
    stats["delays_applied"] += dtap.delayed + atap.delayed
    stats["data_drops_applied"] += dtap.applied
    stats["ack_drops_applied"] += atap.applied
    sent = [l[2] for l in dtap.log]
    retx = len(sent) - len(set(sent))
    stats["dup_transmissions"] += retx
    if err:
        return dtap.applied + atap.applied
    # classify retransmissions (evidence only)
    stats["timeouts_seen"] += sum(1 for i, l in enumerate(dtap.log) if l[2] in {x[2] for x in dtap.log[:i]}
                                  and not any(a[1] == l[1] for a in atap.log))
    stats["fast_retransmits_seen"] += sum(1 for i, l in enumerate(dtap.log) if l[2] in {x[2] for x in dtap.log[:i]}
                                          and any(a[1] == l[1] for a in atap.log))
    if fin is not None:
        size = sender.next_seq
        stats["finite_finish_time_runs"] += 1
        seen = set()
        for l in dtap.log:
            if l[2] in seen and l[1] > fin:
                stats["retransmissions_after_finish_time"] += 1
            seen.add(l[2])
    if not done():
        bad("no-progress-after-faults-stopped" + ("[flow ended by its finish time]" if fin is not None else ""),
            "after finitely many drops the sender did not get all data through and acknowledged within the horizon",
            {"last_ack": sender.last_ack, "size": size, "sink": sink.recv_buffer[:3], "now": env.now, "steps": env.steps,
             "agenda_empty": env.peek() == float("inf"), "data_tx": len(dtap.log), "acks": len(atap.log)})
        return dtap.applied + atap.applied + dtap.delayed + atap.delayed
    stats["sender_completed"] += 1
    # every segment is MSS-sized and within the flow
    for l in dtap.log:
        if l[2] % MSS or not (0 <= l[2] < size):
            bad("segment-outside-flow", "the sender transmitted a segment that is not an MSS-aligned part of the flow", l[2])
            break
    if not case["data_drops"] and not case["ack_drops"] and not case.get("data_delays") and not case.get("ack_delays") \
            and 2 * delay < min_rto * (1 - 1e-9):
        # premise: the round-trip time stayed below the sender's *current* RTO during the whole run
        stats["lossfree_runs"] += 1
        if retx:
            bad("retransmission-on-loss-free-path", "over a loss-free path with RTT below the RTO a segment was transmitted twice",
                {"sent": sent[:20], "rtt": 2 * delay, "smallest_rto_during_run": min_rto})
    return dtap.applied + atap.applied + dtap.delayed + atap.delayed


def enum_patterns(n, maxdrops):
    """every pattern of <= maxdrops faults; a fault is a drop or an extra delay of one transmission"""
    idx = [("d", i) for i in range(n + 4)] + [("a", i) for i in range(n + 4)]
    for k in range(0, maxdrops + 1):
        for comb in itertools.combinations(idx, k):
            yield [i for t, i in comb if t == "d"], [i for t, i in comb if t == "a"], {}, {}
    # the same index space with extra delays instead of drops (delays reorder packets)
    for k in range(1, min(maxdrops, 2) + 1):
        for comb in itertools.combinations(idx, k):
            for extra in (0.35, 3.0):
                yield [], [], {i: extra for t, i in comb if t == "d"}, {i: extra for t, i in comb if t == "a"}


def sender_configs(tier):
    if tier == "quick":
        ns = [1, 2, 3, 5, 8]
        combos = [("TCPReno", 0.1, 1.0), ("TCPCubic", 0.1, 1.0), ("TCPReno", 0.25, 0.05), ("TCPCubic", 0.03, 0.05)]
        md = 2
    else:
        ns = [1, 2, 3, 4, 5, 6, 8, 12]
        combos = [(cc, d, r) for cc in ("TCPReno", "TCPCubic") for d in (0.03, 0.1, 0.25) for r in (1.0, 0.05, 0.2, 3.0)]
        md = 3
    out = []
    for n in ns:
        for cc, d, r in combos:
            out.append((n, cc, d, r, md if n <= 8 else 2))
    return out


def run_shard(ctx):
    import collections
    stats = collections.Counter({k: 0 for k in KEYS})
    viol_case = {}

    def mk_bad(case):
        def bad(m, what, wit=None):
            ctx.violation(m, what, wit, case)
        return bad

    sink_case_holder = {"kind": "sink"}
    sink_part(ctx, stats, mk_bad(sink_case_holder))
    cfgs = sender_configs(ctx.tier)
    mine = [c for i, c in enumerate(cfgs) if i % ctx.nshards == ctx.shard]
    for (n, cc, d, r, md) in mine:
        if ctx.stop:
            break
        if ctx.tier == "thorough" and md == 3 and n > 5:
            md = 2
        for dd, ad, dl, al in enum_patterns(n, md):
            case = {"kind": "sender", "n": n, "cc": cc, "delay": d, "rtt0": r, "data_drops": dd, "ack_drops": ad,
                    "data_delays": dl, "ack_delays": al}
            applied = sender_case(case, stats, mk_bad(case))
            ctx.case_done(case, applied >= 1)
            if ctx.stop:
                break
        stats["exhaustive_spaces"] += 1
    # unusual but legal configurations: a Reno sender whose initial ssthresh is tiny or 0 (few drops), and
    # long loss-free CUBIC flows over a path with a very small round-trip time (the window passes ssthresh)
    rng = ctx.rng("cfg")
    for j in range(12 if ctx.tier == "quick" else 150):
        n = rng.choice([6, 12, 20])
        case = {"kind": "sender", "n": n, "cc": "TCPReno", "delay": rng.choice([0.05, 0.1]), "rtt0": rng.choice([1.0, 0.2]),
                "ssthresh0": rng.choice([0, 0, 100, 512]), "data_drops": sorted(rng.sample(range(n + 4), rng.randint(1, 2))),
                "ack_drops": sorted(rng.sample(range(n + 4), rng.randint(0, 1)))}
        applied = sender_case(case, stats, mk_bad(case))
        stats["unusual_config_runs"] += 1
        ctx.case_done(case, applied >= 1)
    for j in range(2 if ctx.tier == "quick" else 12):
        case = {"kind": "sender", "n": rng.choice([300, 400]), "cc": "TCPCubic", "delay": rng.choice([1e-5, 3e-5, 1e-4, 1e-3]),
                "rtt0": rng.choice([1.0, 0.01]), "data_drops": [], "ack_drops": []}
        sender_case(case, stats, mk_bad(case))
        stats["unusual_config_runs"] += 1
        ctx.case_done(case, True)
    # flow ids beyond the small-int cache, initial RTT estimates of another real number type
    for j in range(6 if ctx.tier == "quick" else 60):
        n = rng.choice([4, 8, 12])
        case = {"kind": "sender", "n": n, "cc": ["TCPReno", "TCPCubic"][j % 2], "delay": rng.choice([0.05, 0.1]),
                "rtt0": rng.choice(["1/2", "3/2", 1.0, 1]), "flow_id": rng.choice([300, 4242, 70001, 7]),
                "data_drops": sorted(rng.sample(range(n + 4), rng.randint(0, 2))), "ack_drops": sorted(rng.sample(range(n + 4), rng.randint(0, 1)))}
        sender_case(case, stats, mk_bad(case))
        stats["unusual_config_runs"] += 1
        stats["large_flow_id_or_rational_rtt_runs"] += 1
        ctx.case_done(case, True)
    # a tiny initial RTT estimate (sub-nanosecond RTO) and the very first transmission lost: only the timer can recover it
    for j in range(2 if ctx.tier == "quick" else 16):
        case = {"kind": "sender", "n": rng.choice([2, 4]), "cc": ["TCPReno", "TCPCubic"][j % 2], "delay": rng.choice([0.05, 0.1]),
                "rtt0": rng.choice([1e-10, 4e-10]), "data_drops": [0], "ack_drops": []}
        sender_case(case, stats, mk_bad(case))
        stats["unusual_config_runs"] += 1
        stats["tiny_rtt_estimate_runs"] += 1
        ctx.case_done(case, True)
    # very slow loss-free paths: round-trip times of minutes, still below the sender's RTO (a large initial estimate)
    for j in range(4 if ctx.tier == "quick" else 24):
        case = {"kind": "sender", "n": rng.choice([4, 8, 12]), "cc": ["TCPReno", "TCPCubic"][j % 2], "delay": rng.choice([70.0, 100.0, 150.0, 400.0]),
                "rtt0": rng.choice([900.0, 1500.0]), "data_drops": [], "ack_drops": []}
        sender_case(case, stats, mk_bad(case))
        stats["unusual_config_runs"] += 1
        stats["slow_path_runs"] += 1
        ctx.case_done(case, True)
    # flows that end by their finish time (application-limited, or a sized flow cut short) with losses near the end:
    # what was sent is still retransmitted until it is acknowledged
    rng = ctx.rng("finish")
    for j in range(40 if ctx.tier == "quick" else 300):
        T = rng.choice([3.5, 5.5, 8.25])
        case = {"kind": "sender", "n": rng.choice([20, 40]), "cc": ["TCPReno", "TCPCubic"][j % 2], "delay": rng.choice([0.1, 0.4]),
                "rtt0": rng.choice([1.0, 0.5]), "finish": T, "data_drops": sorted(rng.sample(range(30), rng.randint(1, 5))),
                "ack_drops": sorted(rng.sample(range(30), rng.randint(0, 2)))}
        if rng.random() < 0.6:
            case["app"] = {"gap": rng.choice([0.5, 1.0]), "chunk": rng.choice([512, 1024, 2048])}
        applied = sender_case(case, stats, mk_bad(case))
        ctx.case_done(case, applied >= 1)
    # long loss bursts: the same segment (or its acknowledgement) is lost 17-22 times in a row; the path drops finitely
    # many packets, so the sender has to go on (the RTO doubles every time, the horizon is far beyond the last of them)
    rng = ctx.rng("burst")
    for j in range(8 if ctx.tier == "quick" else 48):
        n = rng.choice([1, 2, 4])
        k = rng.choice([17, 18, 20, 22])
        start = rng.choice([0, 0, 1, n])
        case = {"kind": "sender", "n": n, "cc": ["TCPReno", "TCPCubic"][j % 2], "delay": 0.01, "rtt0": rng.choice([0.05, 0.01]),
                "data_drops": list(range(start, start + k)) if j % 4 != 3 else [], "ack_drops": list(range(start, start + k)) if j % 4 == 3 else []}
        stats["loss_burst_runs"] += 1
        applied = sender_case(case, stats, mk_bad(case))
        ctx.case_done(case, applied >= 1)
    # random patterns on longer flows
    rng = ctx.rng("rand")
    for i in ctx.cases(60 if ctx.tier == "quick" else 600):
        n = rng.choice([10, 20, 50, 100, 200])
        k = rng.randint(1, 12)
        case = {"kind": "sender", "n": n, "cc": rng.choice(["TCPReno", "TCPCubic"]), "delay": rng.choice([0.01, 0.1, 0.4]),
                "rtt0": rng.choice([1.0, 0.1, 0.5]),
                "data_drops": sorted(rng.sample(range(n + 30), min(k, n + 30))),
                "ack_drops": sorted(rng.sample(range(n + 30), rng.randint(0, 10))),
                "data_delays": {rng.randrange(n + 30): rng.choice([0.2, 1.0, 5.0]) for _ in range(rng.randint(0, 6))},
                "ack_delays": {rng.randrange(n + 30): rng.choice([0.2, 1.0, 5.0]) for _ in range(rng.randint(0, 6))}}
        stats["random_pattern_runs"] += 1
        applied = sender_case(case, stats, mk_bad(case))
        ctx.case_done(case, applied >= 1)
    for k in KEYS:
        ctx.count(k, stats[k])
    ctx.evaluations += stats["sink_sequences"]
    ctx.count("exhaustive_spaces", 0)


def replay(ctx, case):
    import collections
    stats = collections.Counter()

    def bad(m, what, wit=None):
        ctx.violation(m, what, wit, case)
    if case.get("kind") == "sink":
        sink_part(ctx, stats, bad)
    else:
        sender_case(case, stats, bad)
