"""C05 -- condition events fire exactly when their predicate first holds, with exact value.

Monitors: closed-form trigger time / failure / value set recomputed from the observed leaf
completions (vlib.kern.cond_closed_form), ConditionValue view consistency (keys / todict / in /
[] / == dict), no-unexpected-escape (an operand failure absorbed by a condition counts as
handled), mixed-environment refusal probe, spec-kernel tape equality (pins the orders the closed
form leaves open).
"""
from vlib import kern, speckernel

PID = "C05"
LEVEL = "exploration"
ANCHORS = ["onl/sim/events.py"]
RULE = ("random programs whose processes wait on condition trees (depth <= 3, arity 0-4, all_of/any_of "
        "constructors and & | operators) over grid-delay timeouts, shared events, processes and already "
        "processed events, with failures before / at / after satisfaction; non-trivial = a waited condition "
        "was nested or had coinciding operand completions, and the program had a failed or pre-processed "
        "operand; distinct by program hash")
ASSUMPTIONS = ["leaf completions are observed by probe callbacks appended at leaf creation",
               "conditions whose outcome depends on the unobservable processing step of a nested condition are "
               "left to the spec-kernel comparison (counted as 'ambiguous')"]
FLOORS = {"quick": {"conds": 8000, "nested": 3000, "coincident": 2000, "failed": 800, "empty": 100,
                    "preprocessed": 1000, "value_checks": 6000, "partial_values": 2000, "spec_compared": 1000,
                    "mixed_env_probes": 4},
          "thorough": {"conds": 160000, "nested": 60000, "coincident": 40000, "failed": 16000, "empty": 2000,
                       "preprocessed": 20000, "value_checks": 120000, "partial_values": 40000,
                       "spec_compared": 20000, "mixed_env_probes": 4}}
# floors for the situations added with the later rounds of seeded changes (evidence that they were really exercised)
FLOORS["quick"].update({'mixed_env_probes': 20})
FLOORS["thorough"].update({'mixed_env_probes': 20})
FLOORS["quick"].update({'big_arity_probes': 8})
FLOORS["thorough"].update({'big_arity_probes': 8})
FLOORS["quick"].update({'staged_conditions': 1000})
FLOORS["thorough"].update({'staged_conditions': 5000})
PROFILE = {"weights": {"timeout": 4, "zero": 1, "wait": 2, "succeed": 2.5, "fail": 1.2, "spawn": 1, "join": 1,
                       "interrupt": 0.6, "cb": 0.5, "cond": 5, "chain": 0.4, "cbint": 0.1},
           "max_top": 5, "max_child_scripts": 3, "min_ev": 1, "max_ev": 3, "p_exact": 0.9, "p_raise": 0.15,
           "p_catch": 0.7, "cond_depth": 3, "p_rational": 0.03, "reuse_conditions": True}


def plan(tier):
    return {"shards": 4, "timeout": 300} if tier == "quick" else {"shards": 16, "timeout": 3400}


def ncases(tier):
    return 6000 if tier == "quick" else 60000


def mixed_env_probe(ctx):
    K = kern.RealK.load()
    for processed in (False, True):
        for mode in ("and", "or", "all_of", "any_of", "and-rev", "any_of-first", "nested", "foreign-subcondition",
                     "foreign-subcondition-op", "foreign-subcondition-first", "foreign-plain-event", "foreign-process"):
            ctx.count("mixed_env_probes")
            e1, e2 = K.Environment(), K.Environment()
            a, b = e1.timeout(1), e2.timeout(1)
            # a whole sub-condition / a plain event / a process of the other environment as the operand
            sub = e2.all_of([b, e2.timeout(2)]) if mode.startswith("foreign-subcondition") else None
            if mode == "foreign-plain-event":
                sub = e2.event()
                sub.succeed(1)
            elif mode == "foreign-process":
                def body(env):
                    yield env.timeout(1)
                sub = e2.process(body(e2))
            if processed:
                e2.run()                 # the foreign operand has already been processed in its own environment
            try:
                if mode == "and":
                    a & b
                elif mode == "or":
                    a | b
                elif mode == "and-rev":
                    b & a
                elif mode == "all_of":
                    e1.all_of([a, b])
                elif mode == "any_of-first":
                    e1.any_of([b, a])
                elif mode == "nested":
                    e1.all_of([a, e1.any_of([e1.timeout(2), b])])
                elif mode == "foreign-subcondition-op":
                    a | sub
                elif mode == "foreign-subcondition-first":
                    e1.any_of([sub, a])
                elif sub is not None:
                    e1.all_of([a, sub])
                else:
                    e1.any_of([a, b])
                ctx.violation("mixed-environments-accepted" + ("[processed-operand]" if processed else "")
                              + (f"[{mode}]" if sub is not None else ""),
                              "a condition over events of two environments was not refused",
                              mode, {"probe": "mixed_env"})
            except ValueError:
                pass
            except Exception as e:
                ctx.violation("mixed-environments-wrong-exception", "mixing environments raised something other than ValueError",
                              [mode, repr(e)], {"probe": "mixed_env"})


def big_arity_probe(ctx):
    """conditions over hundreds of direct operands behave like small ones"""
    K = kern.RealK.load()
    for n in (256, 257, 300, 1000):
        for mode in ("all", "any"):
            ctx.count("big_arity_probes")
            env = K.Environment()
            evs = [env.timeout(1 + (k % 7), value=k) for k in range(n)]
            c = env.all_of(evs) if mode == "all" else env.any_of(evs)
            got = []

            def waiter(env, c=c):
                v = yield c
                got.append((env.now, len(v.todict())))
            env.process(waiter(env))
            case = {"probe": "big_arity", "n": n, "mode": mode}
            try:
                env.run()
            except BaseException as e:
                ctx.violation("exception@big-arity-condition", "the run raised", repr(e)[:200], case)
                continue
            want = [(7, n)] if mode == "all" else [(1, sum(1 for k in range(n) if 1 + (k % 7) == 1))]
            if got != want:
                ctx.violation(f"cond-wrong-instant[{n} operands]" if (not got or got[0][0] != want[0][0]) else f"cond-value-wrong[{n} operands]",
                              "a condition over many operands did not trigger at the instant its predicate first held with the exact value",
                              {"got": got, "expected": want, "mode": mode}, case)


def one_case(ctx, prog):
    K = kern.RealK.load()
    mon = kern.Monitor(agenda=True, waiters=True, interrupts=False)
    r = kern.run_on(K, prog, mon=mon)
    viol = list(mon.finish())
    kern.count_extras(ctx, r)
    out, st = kern.cond_closed_form(r)
    viol += out
    for e in r.tape:
        if e[1] == "got" and isinstance(e[5], tuple) and e[5] and e[5][0] == "cv":
            for item in e[5][1]:
                if item and isinstance(item[0], str) and item[0].startswith("!"):
                    viol.append(("condition-value-views-disagree", "keys()/todict()/in/[]/== of a ConditionValue disagree",
                                 list(e)))
    sr = kern.run_on(speckernel.K, prog)
    ctx.count("spec_compared")
    viol += kern.spec_violation(r, sr)
    for k, v in st.items():
        ctx.count(k, v)
    ctx.count("escapes_matched", mon.n["escapes_matched"])
    nt = (st["nested"] >= 1 or st["coincident"] >= 1) and (st["failed"] >= 1 or st["preprocessed"] >= 1)
    return viol, nt


def run_shard(ctx):
    if ctx.shard == 0:
        mixed_env_probe(ctx)
        big_arity_probe(ctx)
    for i in ctx.cases(ncases(ctx.tier)):
        case = {"program": kern.gen_program(ctx.rng(i), PROFILE)}
        viol, nt = one_case(ctx, case["program"])
        if i % 4 == 0:
            bv, n = kern.bare_spec_violation(case["program"])
            viol += bv
            ctx.count("bare_runs_compared")
        for m, what, wit in viol:
            ctx.violation(m, what, wit, case)
        ctx.case_done(case, nt)


def replay(ctx, case):
    if "probe" in case:
        return mixed_env_probe(ctx)
    viol, _ = one_case(ctx, case["program"])
    viol += kern.bare_spec_violation(case["program"])[0]
    for m, what, wit in viol:
        ctx.violation(m, what, wit, case)
