"""C04 -- interrupts reach a live process once, in issue order, ahead of ordinary events.

Monitors: interrupt ledger (issued -> delivered once / discarded with the victim, issue order per
victim, same instant, no ordinary occurrence in between), shadow agenda (URGENT class),
resumption-source check (a victim is resumed only by what it currently yields), waiter ledger for
co-waiters of the old target, RuntimeError model for dead/self targets, spec-kernel equality.
"""
from vlib import kern, speckernel

PID = "C04"
LEVEL = "exploration"
ANCHORS = ["onl/sim/events.py", "onl/sim/exceptions.py"]
RULE = ("random programs of 2-6 processes interrupting each other 0-5 times, several per instant, at instants "
        "where the victim's awaited event is due, right after process(), at the victim's last instant; victims "
        "ignore / re-wait the same event / wait for something else / terminate / raise; co-waiters on shared "
        "events; non-trivial = >=1 interrupt delivered AND (>=1 issued at the victim's target's due instant OR "
        ">=2 to one victim in one instant); distinct by program hash")
ASSUMPTIONS = ["Interrupt causes are unique harness ids, so a delivery identifies its issue"]
FLOORS = {"quick": {"int_delivered": 5000, "int_refused": 1000, "int_discarded": 100, "int_at_target_due": 500,
                    "int_multi_same_instant": 300, "spec_compared": 1000, "source_checks": 20000},
          "thorough": {"int_delivered": 100000, "int_refused": 20000, "int_discarded": 2000,
                       "int_at_target_due": 10000, "int_multi_same_instant": 6000, "spec_compared": 20000,
                       "source_checks": 400000}}
# floors for the situations added with the later rounds of seeded changes (evidence that they were really exercised)
FLOORS["quick"].update({'interrupts_issued_from_plain_callbacks': 1800, 'interrupt_ops_with_interrupt_object_as_cause': 6000})
FLOORS["thorough"].update({'interrupts_issued_from_plain_callbacks': 9000, 'interrupt_ops_with_interrupt_object_as_cause': 30000})
FLOORS["quick"].update({'programs_on_realtime_environment': 600, 'with_block_interrupt_probes': 14})
FLOORS["thorough"].update({'programs_on_realtime_environment': 3000, 'with_block_interrupt_probes': 14})
PROFILE = {"weights": {"timeout": 5, "zero": 1, "wait": 3, "succeed": 2, "fail": 0.5, "spawn": 1.5, "join": 2,
                       "interrupt": 6, "cb": 0.3, "cond": 1.5, "cbint": 1.2, "chain": 0.2},
           "min_top": 2, "max_top": 6, "max_child_scripts": 2, "min_ev": 1, "max_ev": 3, "p_exact": 0.85,
           "p_raise": 0.05, "p_catch": 0.8, "int_policy": [3, 4, 3, 1, 1], "p_rational": 0.02}
KEYS = ("int_issued", "int_delivered", "int_refused", "int_discarded", "int_at_target_due",
        "int_multi_same_instant", "source_checks", "agenda_pops", "waiter_invocations", "mixed_class_instants")


def plan(tier):
    return {"shards": 4, "timeout": 300} if tier == "quick" else {"shards": 16, "timeout": 3400}


def ncases(tier):
    return 8000 if tier == "quick" else 80000


def one_case(ctx, prog):
    K = kern.RealK.load()
    mon = kern.Monitor(agenda=True, waiters=True, interrupts=True)
    r = kern.run_on(K, prog, mon=mon)
    viol = list(mon.finish())
    kern.count_extras(ctx, r)
    # a process's first tape entry is never an Interrupt
    first = {}
    for e in r.tape:
        if e[1] in ("start", "int") and e[2] not in first:
            first[e[2]] = e[1]
    for pid, k in first.items():
        if k != "start":
            viol.append(("interrupted-before-first-statement", "a process received an Interrupt before its first statement ran", pid))
    sr = kern.run_on(speckernel.K, prog)
    ctx.count("spec_compared")
    viol += kern.spec_violation(r, sr)
    for k in KEYS:
        ctx.count(k, mon.n[k])
    nt = mon.n["int_delivered"] >= 1 and (mon.n["int_at_target_due"] >= 1 or mon.n["int_multi_same_instant"] >= 1)
    return viol, nt


def realtime_case(ctx, prog):
    """the same program on a RealtimeEnvironment (the kernel's other Environment class) under a virtual wall clock
    whose sleeps are exact: interrupts are delivered by the same rules, the tape equals the spec kernel's"""
    import onl.sim.rt as rt
    K = kern.RealK.load()
    wall = [0.0]

    def sleep(d):
        wall[0] += d
    old = (rt.monotonic, rt.sleep)
    rt.monotonic, rt.sleep = (lambda: wall[0]), sleep
    try:
        mon = kern.Monitor(agenda=True, waiters=True, interrupts=True)
        r = kern.run_on(K, prog, mon=mon, envclass=rt.RealtimeEnvironment)
        viol = list(mon.finish())
    finally:
        rt.monotonic, rt.sleep = old
    sr = kern.run_on(speckernel.K, prog)
    viol += kern.spec_violation(r, sr)
    ctx.count("programs_on_realtime_environment")
    return [(m + "[RealtimeEnvironment]", w, x) for m, w, x in viol]


def with_block_probe(ctx):
    """a process that waits *inside a with-block* of a resource / store request and is interrupted while still queued
    receives the Interrupt at that yield like anywhere else (the context manager must not swallow it)"""
    K = kern.RealK.load()
    from onl.sim import Resource, PriorityResource, PreemptiveResource, Store, Container
    for name, mk, req in (("Resource", lambda e: Resource(e, 1), lambda r: r.request()),
                          ("PriorityResource", lambda e: PriorityResource(e, 1), lambda r: r.request(priority=1)),
                          ("PreemptiveResource", lambda e: PreemptiveResource(e, 1), lambda r: r.request(priority=1, preempt=False)),
                          ("Store.get", lambda e: Store(e), lambda r: r.get()),
                          ("Store.put", lambda e: Store(e, capacity=1), lambda r: r.put("x")),
                          ("Container.get", lambda e: Container(e, 10, 0), lambda r: r.get(3)),
                          ("Container.put", lambda e: Container(e, 10, 10), lambda r: r.put(3))):
        for when in (1, 0):
            ctx.count("with_block_interrupt_probes")
            env = K.Environment()
            res = mk(env)
            log = []

            def holder(env):
                if name.endswith("Resource"):
                    with req(res) as q:
                        yield q
                        yield env.timeout(50)
                elif name == "Store.put":
                    yield res.put("first")
                    yield env.timeout(50)
                else:
                    yield env.timeout(50)

            def victim(env):
                yield env.timeout(when)
                try:
                    with req(res) as q:
                        yield q
                        log.append("granted")
                except K.Interrupt as it:
                    log.append(("interrupt", it.cause, env.now))
                log.append("after")

            def poker(env, v):
                yield env.timeout(2)
                v.interrupt("poke")
            env.process(holder(env))
            v = env.process(victim(env))
            env.process(poker(env, v))
            case = {"probe": "with_block_interrupt", "what": name, "queued_since": when}
            try:
                env.run(until=10)
            except BaseException as e:
                ctx.violation(f"exception:{type(e).__name__}@with-block-interrupt[{name}]", "the run raised", repr(e)[:200], case)
                continue
            if log != [("interrupt", "poke", 2), "after"]:
                ctx.violation(f"interrupt-not-received-inside-with-block[{name}]",
                              "a process interrupted while queued inside `with <request>:` did not receive Interrupt(cause) at its yield", {"log": repr(log)}, case)


def run_shard(ctx):
    if ctx.shard == 0:
        with_block_probe(ctx)
    for i in ctx.cases(ncases(ctx.tier)):
        case = {"program": kern.gen_program(ctx.rng(i), PROFILE)}
        viol, nt = one_case(ctx, case["program"])
        if i % 10 == 7:
            viol += realtime_case(ctx, case["program"])
        if i % 4 == 0:
            bv, n = kern.bare_spec_violation(case["program"])
            viol += bv
            ctx.count("bare_runs_compared")
        for m, what, wit in viol:
            ctx.violation(m, what, wit, case)
        ctx.case_done(case, nt)


def replay(ctx, case):
    viol, _ = one_case(ctx, case["program"])
    viol += kern.bare_spec_violation(case["program"])[0]
    for m, what, wit in viol:
        ctx.violation(m, what, wit, case)
