"""C15 -- round-robin schedulers give each backlogged class its per-visit allowance.

Monitors (DESIGN.md 4/C15):
  (a) visit-window rule: between two back-to-back decisions for classes a then b, every class
      strictly between them in cyclic declaration order had nothing waiting when the first of the
      two transmissions was decided (it can only have been skipped if it was empty);
  (b) per-visit allowance automaton for RR (1 packet) and WRR (`weight` packets): the set J of
      admissible "packets served in this visit" must never become empty (I12);
  (c) DRR step reference on the public `deficit` snapshots taken at every decision tap: some
      integer number of rounds m must explain all credits (quantum added per visit, sizes
      subtracted, unaffordable heads parked, credit forgotten when the class empties); credit range;
  (d) DRR fairness bound over jointly backlogged periods.
Plus the C12 time rules.
"""
from vlib import net as vnet
from vlib import sched as vs
from checks import c12

PID = "C15"
LEVEL = "exploration"
ANCHORS = ["onl/scheduler/drr.py", "onl/scheduler/rr.py", "onl/scheduler/wrr.py", "onl/scheduler/base.py"]
RULE = ("DRR / RR / WRR x weight tables 1-5 (and equal) x 1-6 classes (DRR also with injective and many-to-one flow "
        "maps) x workloads with packets larger and smaller than the quantum, classes that empty and refill mid-round, "
        "long static backlogs for the fairness bound; non-trivial = >= 8 back-to-back decisions with >= 2 classes "
        "waiting and at least one class skipped because it was empty; distinct by case hash")
ASSUMPTIONS = ["where the round-robin pointer is parked across an idle period, and the position inside a visit after it, are free",
               "DRR: a class that empties while a packet of it arrives during the emptying transmission may keep or forget its residue",
               "deficit / quantum are the public credit attributes named by the statement"]
FLOORS = {"quick": {"decisions": 40000, "window_checks": 15000, "skipped_empty_classes": 3000, "wrr_visits_continued": 2000,
                    "wrr_visits_cut_short": 300, "drr_pairs_explained": 8000, "drr_multi_round": 300,
                    "drr_unaffordable_heads": 1000, "drr_credit_forgotten": 1000, "drr_range_checks": 30000,
                    "fairness_periods": 300, "kind_DRR": 150, "kind_RR": 100, "kind_WRR": 100, "idle_restarts": 2000},
          "thorough": {"decisions": 800000, "window_checks": 300000, "skipped_empty_classes": 60000,
                       "wrr_visits_continued": 40000, "wrr_visits_cut_short": 6000, "drr_pairs_explained": 160000,
                       "drr_multi_round": 6000, "drr_unaffordable_heads": 20000, "drr_credit_forgotten": 20000,
                       "drr_range_checks": 600000, "fairness_periods": 6000, "kind_DRR": 3000, "kind_RR": 2000,
                       "kind_WRR": 2000, "idle_restarts": 40000}}
KEYS = tuple(FLOORS["quick"].keys()) + ("rr_duplicate_slot_decisions",) + ("back_to_back", "idle_then_arrival", "arrival_at_tx_end",
                                         "arrival_at_tx_end_after_departure", "drr_fork_residue")
# floors for the situations added with the later rounds of seeded changes (evidence that they were really exercised)
FLOORS["quick"].update({'echoed_arrivals_inside_next_hop_put': 6000})
FLOORS["thorough"].update({'echoed_arrivals_inside_next_hop_put': 30000})
FLOORS["quick"].update({'debug_tracing_cases': 130, 'rr_table_as_tuple_cases': 60})
FLOORS["thorough"].update({'debug_tracing_cases': 650, 'rr_table_as_tuple_cases': 300})
FLOORS["quick"].update({'rr_duplicate_slot_decisions': 2500})
FLOORS["thorough"].update({'rr_duplicate_slot_decisions': 12500})


def plan(tier):
    return {"shards": 4, "timeout": 900} if tier == "quick" else {"shards": 16, "timeout": 3400}


def ncases(tier):
    return 1200 if tier == "quick" else 20000


def gen_case(rng, i):
    kind = ["DRR", "RR", "WRR", "DRR"][i % 4]
    static = (i % 8 in (0, 3))
    flavour = "exact" if rng.random() < 0.7 else "float"
    if kind == "DRR":
        sizes = rng.choice([[500], [1500], [200, 1500], [1000, 2500, 4000], [3000], [64, 9000], [1500, 1501], [750, 2250]])
    else:
        sizes = None
    n = rng.randint(6, 90) if not static else rng.randint(40, 250)
    if kind == "DRR" and rng.random() < 0.04:
        sizes = [70000, 1000, 200000]           # "whatever the packet sizes": far beyond any quantum (and beyond 65535 bytes)
    case = vs.gen_case(rng, kind, flavour=flavour, n=n, static=static, nflows=rng.randint(2, 6), sizes=sizes)
    # (arrivals that land between the scheduler's pick and the start of the transmission inside one instant are left
    # to C13/C14: the visit / credit automata of this check would need the pick instant, which the boundary cannot see)
    for a in case["arrivals"]:
        a.pop("late", None)
    if kind == "RR" and rng.random() < 0.3 and len(case["cfg"]["table"]) >= 2:
        t = case["cfg"]["table"]                 # a flow listed more than once in the round
        for _ in range(rng.randint(1, 2)):
            t.insert(rng.randrange(len(t) + 1), rng.choice(t))
    if kind == "DRR" and rng.random() < 0.08:
        # weight ratios whose quantum 1500*w/min(w) is exact only in that order of operations; packets that use a visit's credit exactly
        cls = case["cfg"]["classes"]
        case["cfg"]["table"] = {c: (10 if k == 0 else 23 if k == 1 else 5) for k, c in enumerate(cls)}
        for a in case["arrivals"]:
            a["size"] = rng.choice([1450, 2000])
    return case


def timeline(run):
    """merged action-ordered events with per-class waiting counts"""
    f2c = run.f2c
    ev = [(a[0], "in", a) for a in run.arr] + [(d[0], "dec", d) for d in run.dec] + [(d[0], "out", d) for d in run.dep]
    ev.sort(key=lambda e: e[0])
    return ev


def window_and_allowance(run, stats, bad):
    cfg = run.case["cfg"]
    kind = cfg["kind"]
    f2c = run.f2c
    if kind == "RR":
        order = list(run.tbl)
        allow = {c: 1 for c in order}
    elif kind == "WRR":
        order = list(run.tbl.keys())
        allow = dict(run.tbl)
    else:
        order = list(run.tbl.keys())
        allow = None
    pos = {c: i for i, c in enumerate(order)}
    n = len(order)
    waiting = {c: 0 for c in order}
    ev = timeline(run)
    prev = None              # (class, waiting snapshot after the decision, emptied_flag)
    J = None
    total_wait_at_out = None
    for _, k, e in ev:
        c = f2c(e[4])
        if k == "in":
            waiting[c] += 1
        elif k == "out":
            total_wait_at_out = sum(waiting.values())
        else:
            waiting[c] -= 1
            snap = dict(waiting)
            b = c
            idle = prev is None or total_wait_at_out == 0
            if idle:
                stats["idle_restarts"] += 1
                J = set(range(1, (allow[b] if allow else 1) + 1))
            else:
                a, wsnap = prev
                stats["window_checks"] += 1
                # classes strictly between a and b in cyclic order
                between = []
                i = (pos[a] + 1) % n
                while i != pos[b]:
                    between.append(order[i])
                    i = (i + 1) % n
                if a == b:
                    between = [x for x in order if x != a]
                if kind != "DRR":
                    if a != b or True:
                        others_empty = all(wsnap[x] == 0 for x in between)
                    if a != b:
                        for x in between:
                            if wsnap[x] > 0:
                                bad(f"backlogged-class-skipped[{kind}]", "a class with packets waiting was passed over in the cyclic visit order",
                                    {"from": a, "to": b, "skipped": x, "waiting": wsnap[x], "order": order})
                                return
                            stats["skipped_empty_classes"] += 1
                        # visit of a must be over
                        if not (allow[a] in J or wsnap[a] == 0):
                            bad(f"visit-cut-short[{kind}]", "a class was left before its per-visit allowance was used up although it still had packets waiting",
                                {"class": a, "allowance": allow[a], "served_in_visit": sorted(J), "waiting": wsnap[a]})
                            return
                        if wsnap[a] == 0 and allow[a] not in J:
                            stats["wrr_visits_cut_short"] += 1
                        J = {1}
                    else:
                        newJ = {j + 1 for j in J if j < allow[a]}
                        if newJ:
                            stats["wrr_visits_continued"] += 1
                        if others_empty:
                            newJ.add(1)
                            stats["skipped_empty_classes"] += len(between)
                        if not newJ:
                            bad(f"allowance-exceeded[{kind}]", "a class was served more packets in one visit than its allowance while other classes were waiting",
                                {"class": a, "allowance": allow[a], "served_in_visit": sorted(J),
                                 "others_waiting": {x: wsnap[x] for x in between if wsnap[x]}})
                            return
                        J = newJ
            prev = (b, snap)
            total_wait_at_out = None


def drr_rule(run, stats, bad):
    cfg = run.case["cfg"]
    f2c, w = run.f2c, run.tbl
    order = list(w.keys())
    pos = {c: i for i, c in enumerate(order)}
    n = len(order)
    sched = run.sched
    minw = min(w.values())
    Q = {c: 1500 * w[c] / minw for c in order}
    for c in order:
        if sched.quantum[c] != Q[c]:                     # (exact: the statement gives the formula)
            bad("drr-quantum-wrong", "the quantum is not 1500*weight/min(weight)", {"class": c, "quantum": sched.quantum[c], "expected": Q[c]})
            return
    Lmax = max(a[5] for a in run.arr) if run.arr else 0
    snaps = {s[0]: s[1] for s in run.snap}
    ev = timeline(run)
    waitq = {c: [] for c in order}           # waiting packets (uid, size) per class, FIFO
    prev = None
    arrivals_in_window = {c: [] for c in order}
    total_wait_at_out = None
    eq = vnet.close
    for seq, k, e in ev:
        c = f2c(e[4])
        if k == "in":
            waitq[c].append((e[3], e[5]))
            arrivals_in_window[c].append(e[5])
        elif k == "out":
            total_wait_at_out = sum(len(q) for q in waitq.values())
        else:
            D1 = snaps.get(seq)
            if D1 is None:
                bad("INCONCLUSIVE-no-deficit-snapshot", "no deficit snapshot at a decision", None)
                return
            L1 = e[5]
            b = c
            for x in order:
                stats["drr_range_checks"] += 1
                if not (0 <= D1[x] < Q[x] + Lmax + 1e-9):
                    bad("drr-credit-out-of-range", "a DRR credit left [0, quantum + largest packet size)",
                        {"class": x, "credit": D1[x], "quantum": Q[x], "Lmax": Lmax})
                    return
            if D1[b] + 1e-9 < L1:
                bad("drr-sent-unaffordable-packet", "DRR sent a head packet its credit does not cover", {"credit": D1[b], "size": L1})
                return
            if waitq[b] and waitq[b][0][0] != e[3]:
                bad("drr-class-not-fifo", "DRR did not send the head packet of the class", None)
                return
            head_before = {x: (waitq[x][0][1] if waitq[x] else None) for x in order}
            if prev is not None and total_wait_at_out:
                a, D0, L0, wait0 = prev           # wait0: waiting counts right after decision k
                apr = D0[a] - L0
                # residue candidates of a
                if wait0[a] > 0:
                    ra = [apr]
                elif arrivals_in_window[a]:
                    ra = [apr, 0.0]
                    stats["drr_fork_residue"] += 1
                else:
                    ra = [0.0]
                    stats["drr_credit_forgotten"] += 1
                explained = False
                why = None
                for r_a in ra:
                    for m in range(0, 40 + int(Lmax // 1500) + 2):          # (a head far beyond every quantum needs that many rounds)
                        ok = True
                        for x in order:
                            if a == b:
                                nx = m
                            else:
                                i = (pos[x] - pos[a]) % n          # 1..n-1 for others, 0 for a
                                j = (pos[b] - pos[a]) % n
                                nx = m if (0 < i <= j) else m - 1
                            if nx < 0:
                                ok = False
                                why = "b served without a visit"
                                break
                            r = r_a if x == a else D0[x]
                            if x == b:
                                if not eq(D1[x], r + nx * Q[x]):
                                    ok = False
                                    why = ("credit of served class", x, D1[x], r, nx)
                                    break
                                if nx >= 1 and wait0[x] > 0 and r + (nx - 1) * Q[x] >= L1 and not (a == b):
                                    # it could already afford its head one visit earlier
                                    if nx >= 2:
                                        ok = False
                                        why = ("served one round late", x)
                                        break
                                if a == b and nx >= 1 and r >= L1 and wait0[x] > 0:
                                    ok = False        # a could afford its next head: the visit must continue (m = 0)
                                    why = ("visit should have continued", x)
                                    break
                                continue
                            if wait0[x] > 0:
                                # backlogged through the window: visited nx times, never able to afford its head
                                if not eq(D1[x], r + nx * Q[x]):
                                    ok = False
                                    why = ("credit of waiting class", x, D1[x], r, nx)
                                    break
                                if nx >= 1 and not (D1[x] < head_before[x]):
                                    ok = False
                                    why = ("affordable head passed over", x)
                                    break
                                if x == a and nx == 0 and not (r < head_before[x]):
                                    ok = False
                                    why = ("visit ended although the next head fits", x)
                                    break
                            else:
                                if not arrivals_in_window[x] or x == a:
                                    want0 = r if x == a else 0.0
                                    if x != a and not eq(D0[x], 0.0):
                                        ok = False
                                        why = ("empty class kept credit", x, D0[x])
                                        break
                                    if x != a and not eq(D1[x], 0.0):
                                        ok = False
                                        why = ("empty class has credit", x, D1[x])
                                        break
                                    if x == a:
                                        # a emptied; with arrivals it may have been visited up to nx times
                                        cands = [r + t * Q[x] for t in range(0, nx + 1)] if arrivals_in_window[x] else [r]
                                        if not any(eq(D1[x], v) for v in cands):
                                            ok = False
                                            why = ("credit of emptied class", x, D1[x], cands)
                                            break
                                else:
                                    cands = [t * Q[x] for t in range(0, nx + 1)]
                                    if not any(eq(D1[x], v) for v in cands):
                                        ok = False
                                        why = ("credit of refilled class", x, D1[x], cands)
                                        break
                                    if D1[x] > 0 and head_before[x] is not None and not (D1[x] < head_before[x]):
                                        ok = False
                                        why = ("affordable head of refilled class passed over", x)
                                        break
                        if ok:
                            explained = True
                            if m >= 2:
                                stats["drr_multi_round"] += 1
                            break
                    if explained:
                        break
                if not explained:
                    bad("drr-credit-accounting-unexplained", "no number of rounds explains the DRR credits between two consecutive decisions "
                        "(quantum per visit, sizes subtracted, unaffordable heads parked, credit forgotten on empty)",
                        {"from": a, "to": b, "D0": D0, "D1": D1, "sent": L0, "next": L1, "quantum": Q, "waiting_after_first": wait0,
                         "heads": head_before, "last_reason": repr(why)})
                    return
                stats["drr_pairs_explained"] += 1
                for x in order:
                    if x != b and wait0[x] > 0 and head_before[x] is not None and D1[x] < head_before[x] and D1[x] > D0[x] - 1e-9 and x != a:
                        stats["drr_unaffordable_heads"] += 1
                        break
            # pop
            if waitq[b] and waitq[b][0][0] == e[3]:
                waitq[b].pop(0)
            prev = (b, D1, L1, {x: len(waitq[x]) for x in order})
            arrivals_in_window = {x: [] for x in order}
            total_wait_at_out = None


def fairness_rule(run, stats, bad):
    f2c, w = run.f2c, run.tbl
    order = list(w.keys())
    minw = min(w.values())
    Q = {c: 1500 * w[c] / minw for c in order}
    Lmax = max(a[5] for a in run.arr)
    ev = timeline(run)
    for i in range(len(order)):
        for j in range(i + 1, len(order)):
            a, b = order[i], order[j]
            cnt = {a: 0, b: 0}
            B = {a: 0, b: 0}
            lo = hi = None
            bound = 4 + 3 * Lmax * (1 / Q[a] + 1 / Q[b])
            for _, k, e in ev:
                c = f2c(e[4])
                if c not in cnt:
                    continue
                if k == "in":
                    cnt[c] += 1
                    if cnt[a] > 0 and cnt[b] > 0 and lo is None:
                        B = {a: 0, b: 0}
                        lo = hi = 0.0
                elif k == "out":
                    cnt[c] -= 1
                    if lo is not None:
                        B[c] += e[5]
                        d = B[a] / Q[a] - B[b] / Q[b]
                        lo, hi = min(lo, d), max(hi, d)
                        if hi - lo >= bound:
                            bad("drr-fairness-bound-exceeded", "bytes sent for two jointly backlogged classes, divided by their quanta, drifted apart by more than the bound",
                                {"classes": [a, b], "spread": hi - lo, "bound": bound, "Q": [Q[a], Q[b]], "Lmax": Lmax})
                            return
                    if cnt[a] == 0 or cnt[b] == 0:
                        if lo is not None:
                            stats["fairness_periods"] += 1
                        lo = hi = None


def rr_slots_rule(run, stats, bad):
    """RR whose round lists a flow more than once ([0, 1, 0, 2]): the round is a cycle of SLOTS in declaration order, one
    packet per slot visited, a slot is passed over only when its flow has nothing waiting.  Candidate-set automaton
    over the slot served last; a flow counts as certainly backlogged if it already was right after the previous decision."""
    slots = list(run.tbl)
    n = len(slots)
    waiting = {f: 0 for f in set(slots)}
    ev = timeline(run)
    P = None                 # possible positions of the slot served last (None = free: the system was empty)
    wsnap = None
    total_wait_at_out = None
    for _, k, e in ev:
        f = e[4]
        if k == "in":
            waiting[f] += 1
        elif k == "out":
            total_wait_at_out = sum(waiting.values())
        else:
            if P is None or total_wait_at_out == 0:
                stats["idle_restarts"] += 1
                newP = {q for q in range(n) if slots[q] == f}
            else:
                stats["window_checks"] += 1
                stats["rr_duplicate_slot_decisions"] += 1
                newP = set()
                for p0 in P:
                    q = (p0 + 1) % n
                    steps = 0
                    while steps < n:
                        if slots[q] == f:
                            newP.add(q)
                        if wsnap[slots[q]] > 0:
                            break               # this slot's flow was certainly backlogged: the scan cannot pass it
                        stats["skipped_empty_classes"] += 1
                        q = (q + 1) % n
                        steps += 1
                if not newP:
                    bad("backlogged-class-skipped[RR]", "a slot of the round whose flow had packets waiting was passed over (cyclic visit in declaration order, one packet per slot)",
                        {"round": slots, "served": f, "after_slot_candidates": sorted(P), "waiting_after_previous_decision": {str(x): v for x, v in wsnap.items() if v}})
                    return
            P = newP
            waiting[f] -= 1
            wsnap = dict(waiting)
            total_wait_at_out = None


def one_case(ctx, case):
    import collections
    stats = collections.Counter({k: 0 for k in KEYS})
    cfg = case["cfg"]
    snapshot = (lambda s: dict(s.deficit)) if cfg["kind"] == "DRR" else None
    run = vs.Run(case, counters=False, snapshot=snapshot).go()
    vs.count_features(ctx, run)
    if not run.viol:
        c12.time_rules(run, stats, run.bad)
    if not run.viol:
        if cfg["kind"] == "RR" and len(set(run.tbl)) < len(list(run.tbl)):
            rr_slots_rule(run, stats, run.bad)
        else:
            window_and_allowance(run, stats, run.bad)
    if not run.viol and cfg["kind"] == "DRR":
        drr_rule(run, stats, run.bad)
        if not run.viol:
            fairness_rule(run, stats, run.bad)
    stats["kind_" + cfg["kind"]] += 1
    for k in KEYS:
        ctx.count(k, stats[k])
    nt = stats["window_checks"] >= 8 and stats["skipped_empty_classes"] >= 1
    return run.viol, nt


def run_shard(ctx):
    for i in ctx.cases(ncases(ctx.tier)):
        case = gen_case(ctx.rng(i), i)
        viol, nt = one_case(ctx, case)
        for m, what, wit in viol:
            ctx.violation(m, what, wit, case)
        ctx.case_done(case, nt)


def replay(ctx, case):
    viol, _ = one_case(ctx, case)
    for m, what, wit in viol:
        ctx.violation(m, what, wit, case)
