"""C20 -- real-time pacing never runs ahead of the wall clock and alters no result.

Instruments: the module globals onl.sim.rt.monotonic / onl.sim.rt.sleep are replaced, for the
duration of a case, by a scripted virtual clock (sleep(d) advances it by d*(1+eps_k), eps < 0 =
returns early; every kernel step "burns" a scripted amount of wall time, as a process body would).
Oracles: (a) tape equality with the plain Environment; (b) never-ahead check at every processed
occurrence: wall >= real_start + (t - initial_time)*factor; (c) strict decision model at every
step() entry: RuntimeError('Simulation too slow for real time ...') iff strict and
lag > factor, lag == factor passes, never when not strict; sync() re-bases real_start.
"""
from vlib import kern

PID = "C20"
LEVEL = "exploration"
ANCHORS = ["onl/sim/rt.py", "onl/sim/core.py"]
RULE = ("random kernel programs (as C03) x factor in {0.25, 0.5, 1, 2, 0.01} x initial time in {0, 5, 2.5} x strict on/off x "
        "clock scripts (exact sleeps, sleeps returning early / late, per-step burns that land exactly on / just over the "
        "strict boundary, sync() before the run, mid-run and after a long burn); non-trivial = the run slept at least "
        "once, had an early-returning sleep or a sync, and (strict) came within the boundary; distinct by case hash")
ASSUMPTIONS = ["wall time is consumed between kernel steps (burn after each step) and inside sleep(), nowhere else",
               "on non-dyadic factors a lag within 1e-9 of the boundary is not judged"]
FLOORS = {"quick": {"steps": 100000, "sleeps": 20000, "early_sleeps": 3000, "late_sleeps": 2000, "never_ahead_checks": 100000,
                    "strict_errors_expected": 300, "strict_boundary_exact_pass": 50, "strict_checks": 40000, "syncs": 1000,
                    "nonstrict_late_steps": 3000, "tapes_compared": 2000},
          "thorough": {"steps": 2000000, "sleeps": 400000, "early_sleeps": 60000, "late_sleeps": 40000,
                       "never_ahead_checks": 2000000, "strict_errors_expected": 6000, "strict_boundary_exact_pass": 1000,
                       "strict_checks": 800000, "syncs": 20000, "nonstrict_late_steps": 60000, "tapes_compared": 40000}}
KEYS = tuple(FLOORS["quick"].keys()) + ("continued_after_strict_error", "huge_int_clock_cases", "steps_interrupted_in_sleep", "second_jobs_after_idle", "runs_without_probes", "run_until_on_empty_schedule")
# floors for the situations added with the later rounds of seeded changes (evidence that they were really exercised)
FLOORS["quick"].update({'steps_interrupted_in_sleep': 15000})
FLOORS["thorough"].update({'steps_interrupted_in_sleep': 75000})
FLOORS["quick"].update({'runs_without_probes': 1800, 'second_jobs_after_idle': 1200})
FLOORS["thorough"].update({'runs_without_probes': 9000, 'second_jobs_after_idle': 6000})
FLOORS["quick"].update({'run_until_on_empty_schedule': 600})
FLOORS["thorough"].update({'run_until_on_empty_schedule': 3000})
PROFILE = {"weights": {"timeout": 6, "zero": 1, "wait": 2, "succeed": 2, "fail": 0.3, "spawn": 1.5, "join": 1.5,
                       "interrupt": 1, "cb": 0.5, "cond": 1},
           "max_top": 4, "max_child_scripts": 2, "min_ev": 0, "max_ev": 2, "p_exact": 1.0, "p_raise": 0.05,
           "p_catch": 0.85, "t0": [0, 0, 5, 2.5]}


def plan(tier):
    return {"shards": 4, "timeout": 600} if tier == "quick" else {"shards": 16, "timeout": 3400}


def ncases(tier):
    return 8000 if tier == "quick" else 80000


class SleepInterrupted(BaseException):
    """what a signal handler / Ctrl-C raises out of time.sleep()"""


class Clock:
    def __init__(self, script, start):
        self.t = start
        self.script = script
        self.k = 0
        self.sleeps = self.early = self.late = self.interrupted = 0

    def monotonic(self):
        return self.t

    def sleep(self, d):
        eps = self.script[self.k % len(self.script)]
        self.k += 1
        self.sleeps += 1
        if eps == "raise":
            # the sleep is cut short by an exception after a quarter of its time
            self.interrupted += 1
            self.t = self.t + d / 4 if self.t + d / 4 > self.t else self.t + d
            raise SleepInterrupted()
        if eps < 0:
            self.early += 1
        elif eps > 0:
            self.late += 1
        new = self.t + d * (1 + eps)
        if new <= self.t:                    # a real clock always advances
            new = self.t + d
        if new <= self.t:
            import math
            new = math.nextafter(self.t, float("inf"))
        self.t = new


def gen_case(rng, i):
    prog = kern.gen_program(rng, PROFILE)
    if i % 9 == 4:
        # an integer clock far beyond 2**53 (tick / nanosecond epoch counters): only integer delays keep it exact
        prog = kern.gen_program(rng, dict(PROFILE, p_exact=1.0))
        prog["t0"] = rng.choice([2 ** 60, 2 ** 55 + 1, 10 ** 18])

        def ints(ops):
            for op in ops:
                if op[0] == "timeout":
                    op[1] = int(op[1] * 4)
                elif op[0] == "cond":
                    fix(op[1])

        def fix(tree):
            for k in tree[2]:
                if k[0] == "t":
                    k[1] = int(k[1] * 4)
                elif k[0] in ("all", "any"):
                    fix(k)
        for sc in prog["scripts"]:
            ints(sc["ops"])
        prog["huge_int_clock"] = True
    factor = rng.choice([0.25, 0.5, 1, 1, 2, 0.01, 2.0 ** -13])        # (incl. a factor far below a millisecond)
    strict = rng.random() < 0.5
    kind = rng.choice(["exact", "early", "late", "mixed"])
    if kind == "exact":
        eps = [0]
    elif kind == "early":
        eps = [rng.choice([-0.5, -0.25, 0, -0.75]) for _ in range(7)]
    elif kind == "late":
        eps = [rng.choice([0, 0.25, 0.5, 1.0]) for _ in range(7)]
    else:
        eps = [rng.choice([-0.5, 0, 0.25, -0.25, 1.0]) for _ in range(9)]
    if rng.random() < 0.15:
        eps = list(eps) + ["raise"] * rng.randint(1, 2)
        rng.shuffle(eps)
    heavy = rng.random() < 0.5
    tiny = 2.0 ** -22
    if heavy:
        pool = [0, 0, 0, factor / 2, factor, factor, 2 * factor, factor / 4, factor + factor / 4, factor + tiny, factor - tiny, tiny]
    else:
        pool = [0, 0, 0, 0, factor / 4, factor / 2]
    burns = [rng.choice(pool) for _ in range(23)]
    syncs = sorted(rng.sample(range(1, 60), rng.randint(0, 3))) if rng.random() < 0.5 else []
    return {"program": prog, "factor": factor, "strict": strict, "eps": eps, "burns": burns, "syncs": syncs,
            "sync_before": rng.random() < 0.3, "start_wall": rng.choice([0, 100, 1000.5]),
            "construct_lag": rng.choice([0, 0, factor, 5 * factor]),
            "after_error": rng.choice(["stop", "retry", "retry", "sync"]),
            "bare": rng.random() < 0.3,
            "second_job": None if rng.random() < 0.7 else {"how": rng.choice(["timeout", "run-until"]), "idle": rng.choice([0, factor / 2, 3 * factor, 10 * factor]),
                                                            "delay": rng.choice([0, 1, 2] if prog.get("huge_int_clock") else [0, 0.25, 1, 2])}}


def run_case(case, stats):
    K = kern.RealK.load()
    import onl.sim.rt as rt
    viol = []

    def bad(m, what, wit=None):
        if len(viol) < 3:
            viol.append((m, what, wit))

    prog = case["program"]
    factor, strict, t0 = case["factor"], case["strict"], prog["t0"]
    if prog.get("huge_int_clock"):
        stats["huge_int_clock_cases"] += 1
    dyadic = factor != 0.01
    clock = Clock(case["eps"], case["start_wall"])
    old = (rt.monotonic, rt.sleep)
    rt.monotonic, rt.sleep = clock.monotonic, clock.sleep
    try:
        Env = kern.make_monenv(rt.RealtimeEnvironment)
        env = Env(t0, factor, strict)
        rs = clock.t
        clock.t += case["construct_lag"]        # time passes between construction and run
        if case["sync_before"]:
            env.sync()
            rs = clock.t
            stats["syncs"] += 1
        if env.factor != factor or env.strict != strict:
            bad("rt-properties-wrong", "factor/strict properties do not return the constructor arguments", None)
        # (without harness probes an abandoned timeout -- interrupted waiter, `timeout | event` decided by the event -- has
        # no callback at all when it comes due)
        r = kern.Runner(K, prog, env=env, bare=bool(case.get("bare")))
        if case.get("bare"):
            stats["runs_without_probes"] += 1
        r.start()
        nstep = 0
        nretry = 0
        stopped_by_strict = False
        close_to_boundary = False
        second = dict(case.get("second_job") or {})
        while True:
            nxt = env.peek()
            if nxt == float("inf") and second and not stopped_by_strict and env.steps <= 5000:
                # the schedule ran empty; the caller polls it once, time passes (no sync()), then a second job is
                # scheduled and stepped: it is paced and judged against the same real_start as everything before
                try:
                    env.step()
                    bad("step-on-empty-schedule-did-not-raise", "step() on an empty schedule did not raise EmptySchedule", None)
                except K.EmptySchedule:
                    pass
                except BaseException as e:
                    bad("step-on-empty-schedule-did-not-raise", "step() on an empty schedule raised something else", repr(e)[:100])
                clock.t += second["idle"]
                if second.get("how") == "run-until":
                    # the second job is a plain run(until=now + d) on the EMPTY schedule: its stop occurrence is paced and
                    # (strict) judged like any other occurrence
                    t_stop = env.now + second["delay"] + 1
                    due = rs + (t_stop - t0) * factor
                    got = False
                    lag = clock.t - due
                    expect_err = strict and lag > factor
                    try:
                        env.run(until=t_stop)
                    except SleepInterrupted:
                        # the pacing sleep was left by an exception: a second run(until=t) would find the first call's stop
                        # occurrence still scheduled and step twice -- not judged here (the step()-level loop above covers it)
                        stats["steps_interrupted_in_sleep"] += 1
                        second = None
                        break
                    except RuntimeError as e:
                        got = str(e).startswith("Simulation too slow for real time")
                    stats["run_until_on_empty_schedule"] += 1
                    if got != expect_err and not ((not dyadic) and abs(lag - factor) < 1e-9):
                        bad("no-too-slow-error-although-beyond-factor" if expect_err else "too-slow-error-although-within-factor",
                            "run(until=t) on an empty schedule raised / did not raise 'Simulation too slow for real time' against the strict rule",
                            {"lag": lag, "factor": factor, "strict": strict})
                    elif not got:
                        if env.now != t_stop:
                            bad("run-until-returned-at-wrong-time", "run(until=t) returned with now != t", {"t": t_stop, "now": env.now})
                        elif clock.t < due and not (not dyadic and due - clock.t < 1e-9):
                            bad("processed-ahead-of-wall-clock", "run(until=t) on an empty schedule returned before the wall clock reached real_start + (t - initial_time)*factor",
                                {"t": t_stop, "wall": clock.t, "needed": due, "factor": factor})
                    second = None
                    break
                env.timeout(second["delay"], "second-job")
                stats["second_jobs_after_idle"] += 1
                second = None
                continue
            if nxt == float("inf") or env.steps > 5000:
                break
            if nstep in case["syncs"]:
                env.sync()
                rs = clock.t
                stats["syncs"] += 1
            wall0 = clock.t
            due = rs + (nxt - t0) * factor
            lag = wall0 - due
            stats["strict_checks"] += 1
            ambiguous = (not dyadic) and abs(lag - factor) < 1e-9
            expect_err = strict and lag > factor
            if strict and lag == factor:
                stats["strict_boundary_exact_pass"] += 1
            if strict and factor / 2 <= lag <= factor:
                close_to_boundary = True
            if not strict and lag > factor:
                stats["nonstrict_late_steps"] += 1
            got_err = False
            try:
                env.step()
            except SleepInterrupted:
                # the pacing sleep was left by an exception; the caller simply calls step() again (no sync()): nothing
                # may have been processed, and the occurrence is still not processed before its due wall time
                stats["steps_interrupted_in_sleep"] += 1
                if env.peek() != nxt:
                    bad("occurrence-processed-by-interrupted-step", "a step() whose pacing sleep was left by an exception processed an occurrence", None)
                    break
                continue
            except RuntimeError as e:
                if str(e).startswith("Simulation too slow for real time"):
                    got_err = True
                else:
                    r.tape.append((env.now, "escape", kern.canon_exc(e)))
            except (Exception, kern.Crit) as e:
                r.tape.append((env.now, "escape", kern.canon_exc(e)))
            nstep += 1
            stats["steps"] += 1
            if not ambiguous and got_err != expect_err:
                if got_err and not strict:
                    mech = "too-slow-error-in-non-strict-mode"
                elif got_err:
                    mech = "too-slow-error-although-within-factor"
                else:
                    mech = "no-too-slow-error-although-beyond-factor"
                bad(mech, "step() raised / did not raise 'Simulation too slow for real time' against the strict rule (lag > factor)",
                    {"lag": lag, "factor": factor, "strict": strict, "wall": wall0, "due_wall": due})
                break
            if got_err:
                stats["strict_errors_expected"] += 1
                # a caller may catch the error and go on.  Nothing but sync() re-bases real_start, so the same step
                # is still too late and must raise again; after sync() it is on time.
                mode = case.get("after_error", "stop")
                if mode == "stop" or nretry >= 2:
                    stopped_by_strict = True
                    break
                nretry += 1
                stats["continued_after_strict_error"] += 1
                if mode == "sync" or nretry == 2:
                    env.sync()                       # re-bases real_start to the moment of the call
                    rs = clock.t
                    stats["syncs"] += 1
                continue
            # (b) never ahead of the wall clock: the occurrence just processed was due at env.now
            stats["never_ahead_checks"] += 1
            need = rs + (env.now - t0) * factor
            if clock.t < need and not (not dyadic and need - clock.t < 1e-9):
                bad("processed-ahead-of-wall-clock", "an occurrence was processed before the wall clock reached real_start + (t - initial_time)*factor",
                    {"t": env.now, "wall": clock.t, "needed": need, "factor": factor, "real_start": rs})
                break
            clock.t += case["burns"][nstep % len(case["burns"])]
        stats["sleeps"] += clock.sleeps
        stats["early_sleeps"] += clock.early
        stats["late_sleeps"] += clock.late
    finally:
        rt.monotonic, rt.sleep = old
    if viol:
        return viol, False
    # (a) same event sequence and values as the plain Environment
    plain = kern.Runner(K, prog, bare=bool(case.get("bare")))
    plain.start()
    plain.run_to_end()
    P = [e for e in plain.tape if e[1] != "run-end"]
    R = list(r.tape)
    stats["tapes_compared"] += 1
    truncated = plain.tape[-1][2] != "ret"            # the plain run was abandoned (too many escapes / step cap)
    if truncated:
        n = min(len(R), len(P))
        R, P = R[:n], P[:n]
    if (stopped_by_strict and R != P[:len(R)]) or (not stopped_by_strict and env.steps <= 5000 and R != P):
        i = kern.first_diff(R, P)
        bad("realtime-trace-differs-from-plain-environment", "the RealtimeEnvironment did not execute the same event sequence with the same values",
            {"index": i, "realtime": R[i] if i is not None and i < len(R) else None, "plain": P[i] if i is not None and i < len(P) else None})
    nt = clock.sleeps >= 1 and (clock.early >= 1 or case["syncs"] or case["sync_before"]) and (not strict or close_to_boundary or stopped_by_strict)
    return viol, nt


def one_case(ctx, case):
    import collections
    stats = collections.Counter({k: 0 for k in KEYS})
    viol, nt = run_case(case, stats)
    for k in KEYS:
        ctx.count(k, stats[k])
    return viol, nt


def run_shard(ctx):
    for i in ctx.cases(ncases(ctx.tier)):
        case = gen_case(ctx.rng(i), i)
        viol, nt = one_case(ctx, case)
        for m, what, wit in viol:
            ctx.violation(m, what, wit, case)
        ctx.case_done(case, nt)


def replay(ctx, case):
    viol, _ = one_case(ctx, case)
    for m, what, wit in viol:
        ctx.violation(m, what, wit, case)
