"""C12 -- schedulers are work-conserving, non-preemptive, rate-exact and per-flow FIFO.

Three taps per scheduler (arrival = put, service decision = send_packet call, departure =
out.put) in one action order.  Oracle on times only: no overlap, exact duration, back-to-back
service whenever something waits else start at the next arrival, exactly-once, per-flow FIFO,
everything transmitted at exhaustion; counters == shadow after every tap and kernel step;
Monitor samples against the reference timeline.
"""
import random

from vlib import net as vnet
from vlib import sched as vs

PID = "C12"
LEVEL = "exploration"
ANCHORS = ["onl/scheduler/base.py", "onl/scheduler/sp.py", "onl/scheduler/wfq.py", "onl/scheduler/virtual_clock.py",
           "onl/scheduler/drr.py", "onl/scheduler/rr.py", "onl/scheduler/wrr.py", "onl/scheduler/monitor.py"]
RULE = ("each of SP/WFQ/VC/DRR/RR/WRR x 1-6 flows x rates / weight, priority, vtick tables x flow-to-class maps "
        "(identity, injective non-identity, many-to-one where the scheduler takes flow2class) x arrival workloads "
        "(bursts into idle, arrivals exactly at transmission ends, long idle gaps) from two driver processes whose "
        "wake-ups are created at different instants (I11); Monitor with scripted sampling on and off coincidences; "
        "non-trivial = >= 2 back-to-back transmissions, >= 1 idle gap followed by a start at the next arrival and an "
        "arrival exactly at a transmission end; distinct by case hash")
ASSUMPTIONS = ["the service decision is observed at the public send_packet() call; a scheduler that stops using it makes the check inconclusive",
               "flows are configured (SP: priority table keyed by flow; WFQ/VC/DRR: tables keyed by class)"]
FLOORS = {"quick": {"decisions": 40000, "back_to_back": 15000, "idle_then_arrival": 5000, "arrival_at_tx_end": 3000,
                    "arrival_at_tx_end_after_departure": 200, "counter_checks": 200000, "many_to_one_cases": 150,
                    "monitor_samples_strict": 5000, "monitor_samples_coincident": 200,
                    "kind_SP": 100, "kind_WFQ": 100, "kind_VC": 100, "kind_DRR": 100, "kind_RR": 100, "kind_WRR": 100},
          "thorough": {"decisions": 800000, "back_to_back": 300000, "idle_then_arrival": 100000,
                       "arrival_at_tx_end": 60000, "arrival_at_tx_end_after_departure": 4000, "counter_checks": 4000000,
                       "many_to_one_cases": 3000, "monitor_samples_strict": 100000, "monitor_samples_coincident": 4000,
                       "kind_SP": 2000, "kind_WFQ": 2000, "kind_VC": 2000, "kind_DRR": 2000, "kind_RR": 2000,
                       "kind_WRR": 2000}}
KEYS = tuple(FLOORS["quick"].keys()) + ("downstream_transmissions", "fractional_size_cases", "monitor_flag_reassignments")
# floors for the situations added with the later rounds of seeded changes (evidence that they were really exercised)
FLOORS["quick"].update({'echoed_arrivals_inside_next_hop_put': 4000, 'late_arrivals_inside_an_instant': 3000, 'store_as_next_hop_cases': 150})
FLOORS["thorough"].update({'echoed_arrivals_inside_next_hop_put': 20000, 'late_arrivals_inside_an_instant': 15000, 'store_as_next_hop_cases': 750})
FLOORS["quick"].update({'downstream_transmissions': 5000, 'fractional_size_cases': 100})
FLOORS["thorough"].update({'downstream_transmissions': 25000, 'fractional_size_cases': 500})
FLOORS["quick"].update({'monitor_flag_reassignments': 90})
FLOORS["thorough"].update({'monitor_flag_reassignments': 450})


def plan(tier):
    return {"shards": 4, "timeout": 900} if tier == "quick" else {"shards": 16, "timeout": 3400}


def ncases(tier):
    return 1500 if tier == "quick" else 25000


def gen_case(rng, i):
    kind = vs.KINDS[i % 6]
    if rng.random() < 0.1:
        case = vs.gen_case(rng, kind, flavour="float", sizes=[100.5, 300.25, 40.75])        # sizes need not be whole numbers of bytes
        case["fractional_sizes"] = True
    else:
        case = vs.gen_case(rng, kind)
    if kind == "RR" and rng.random() < 0.3 and len(case["cfg"]["table"]) >= 2:
        # a flow listed more than once in the round (a double share): [1, 2, 1]
        t = case["cfg"]["table"]
        for _ in range(rng.randint(1, 2)):
            t.insert(rng.randrange(len(t) + 1), rng.choice(t))
    if rng.random() < 0.3:
        offs = rng.random() < 0.6
        case["monitor"] = {"flip_at": (rng.choice([0.9017, 2.3031, 5.7013]) if rng.random() < 0.3 else None), "included": rng.random() < 0.5,
                           "samples": [rng.choice([0.37, 0.61, 0.113]) if offs else rng.choice([0.25, 0.5, 0.125, 1])
                                       for _ in range(80)]}
    return case


def time_rules(run, stats, bad):
    """the C12 oracle on times; shared with C13..C15"""
    case = run.case
    rate = case["cfg"]["rate"]
    arr, dec, dep = run.arr, run.dec, run.dep
    if len(arr) != len(case["arrivals"]) + getattr(run, "echoed", 0):
        bad("harness-arrivals-missing", "harness: not all arrivals were injected", [len(arr), len(case["arrivals"]), getattr(run, "echoed", 0)])
        return False
    arrived = {a[3]: a for a in arr}
    if len(dec) == 0 and len(arr) > 0 and len(dep) > 0:
        bad("INCONCLUSIVE-decision-tap-not-reached", "packets departed but send_packet was never called: the decision tap is blind", None)
        return False
    # exactly once
    du = [d[3] for d in dec]
    if len(set(du)) != len(du):
        bad("packet-decided-twice", "a packet was handed to transmission twice", None)
        return False
    if [d[3] for d in dec] != [d[3] for d in dep]:
        bad("decisions-and-departures-differ", "the departures are not exactly the decided packets in order (aborted, duplicated or invented transmission)",
            {"decided": du[:10], "departed": [d[3] for d in dep][:10]})
        return False
    if set(du) != set(arrived):
        missing = [u for u in arrived if u not in set(du)]
        bad("accepted-packet-never-transmitted", "at exhaustion an accepted packet of a configured flow was never transmitted",
            {"missing": len(missing), "flow": arrived[missing[0]][4] if missing else None, "kind": case["cfg"]["kind"], "cmap": case["cfg"]["cmap"]})
        return False
    # per-flow FIFO
    last = {}
    for d in dec:
        a = arrived[d[3]]
        f = d[4]
        if f in last and a[0] < last[f]:
            bad("flow-order-inverted", "packets of one flow left in another order than they arrived", {"flow": f})
            return False
        last[f] = a[0]
    eq = (lambda x, y: x == y) if case["flavour"] == "exact" else vnet.close
    atimes = sorted(a[2] for a in arr)
    decided_at = {d[3]: k for k, d in enumerate(dec)}
    for k, d in enumerate(dec):
        start, size = d[2], d[5]
        end = dep[k][2]
        stats["decisions"] += 1
        if end != start + size * 8.0 / rate and not eq(end, start + size * 8.0 / rate):
            bad("transmission-duration-wrong", "a transmission did not last exactly 8*size/rate",
                {"start": start, "end": end, "size": size, "rate": rate})
            return False
        if k == 0:
            want = arr[0][2]
            if start != want:
                bad("idle-with-backlog", "the first transmission did not start at the first arrival", {"start": start, "arrival": want})
                return False
            continue
        pend = dep[k - 1][2]
        if start < pend:
            bad("transmissions-overlap", "a transmission started before the previous one ended", {"prev_end": pend, "start": start})
            return False
        # anything that arrived at time <= pend and is still undecided after decision k-1?
        waiting = any(a[2] <= pend and decided_at[a[3]] >= k for a in arr)
        if waiting:
            stats["back_to_back"] += 1
            if start != pend:
                bad("idle-with-backlog", "a packet was waiting when a transmission ended but the next one did not start at that very instant",
                    {"prev_end": pend, "start": start, "kind": case["cfg"]["kind"]})
                return False
        else:
            stats["idle_then_arrival"] += 1
            nxt = min(a[2] for a in arr if decided_at[a[3]] >= k)
            if start != nxt:
                bad("late-start-after-idle", "after an idle period the next transmission did not start at the next arrival",
                    {"next_arrival": nxt, "start": start})
                return False
    ends = {d[2]: d[0] for d in dep}
    for a in arr:
        if a[2] in ends:
            stats["arrival_at_tx_end"] += 1
            if a[0] > ends[a[2]]:
                stats["arrival_at_tx_end_after_departure"] += 1
    return True


def monitor_rules(run, stats, bad):
    case = run.case
    mon = run.mon
    inc0 = case["monitor"]["included"]
    flip_at = case["monitor"].get("flip_at")
    arrived = {a[3]: a for a in run.arr}
    start = {d[3]: d[2] for d in run.dec}
    end = {d[3]: d[2] for d in run.dep}
    samples = case["monitor"]["samples"]
    for f in case["cfg"]["flows"]:
        tau = 0
        pk = [u for u, a in arrived.items() if a[4] == f]
        for k, (cnt, byt) in enumerate(zip(mon.sizes[f], mon.byte_sizes[f])):
            tau = tau + samples[k % len(samples)]
            inc = inc0 if flip_at is None or tau < flip_at else (not inc0)       # (the public flag was reassigned at flip_at)
            waiting = [u for u in pk if arrived[u][2] <= tau and start.get(u, 1e300) > tau]
            serving = [u for u in pk if start.get(u, 1e300) <= tau < end.get(u, 1e300)]
            exp_n = len(waiting) + (len(serving) if inc else 0)
            exp_b = sum(arrived[u][5] for u in waiting) + (sum(arrived[u][5] for u in serving) if inc else 0)
            coincide = [u for u in pk if tau in (arrived[u][2], start.get(u), end.get(u))]
            if not coincide:
                stats["monitor_samples_strict"] += 1
                if cnt != exp_n or byt != exp_b:
                    bad("monitor-sample-wrong[included]" if inc else "monitor-sample-wrong[excluded]",
                        "a Monitor sample differs from the packets of that flow waiting (+ in service when included)",
                        {"flow": f, "tau": tau, "got": [cnt, byt], "expected": [exp_n, exp_b], "included": inc})
                    return
            else:
                stats["monitor_samples_coincident"] += 1
                m = len(coincide) + 1
                if not (exp_n - m <= cnt <= exp_n + m):
                    bad("monitor-sample-wrong[coincident]", "a Monitor sample at a coincidence is outside the admissible range",
                        {"flow": f, "tau": tau, "got": cnt, "around": exp_n})
                    return


def run_case(case, stats):
    horizon = None
    if "monitor" in case:
        total = sum(a["size"] for a in case["arrivals"])
        if case.get("echo"):
            total += 3 * len(case["arrivals"]) * max(a["size"] for a in case["arrivals"])     # (bound on the echoed packets)
        horizon = max(a["t"] for a in case["arrivals"]) + total * 8.0 / case["cfg"]["rate"] + 5
    run = vs.Run(case, monitor=case.get("monitor"))
    if "monitor" in case and case["monitor"].get("flip_at") is not None:
        def flip(env=run.net.env, mon=run):
            yield env.timeout(case["monitor"]["flip_at"])
            run.mon.service_included = not run.mon.service_included
            stats["monitor_flag_reassignments"] += 1
        run.net.env.process(flip())
    run.go(horizon)
    if not run.viol:
        time_rules(run, stats, run.bad)
    if not run.viol and run.mon is not None:
        monitor_rules(run, stats, run.bad)
    if not run.viol and run.ds_rate:
        # the same packets then cross a second scheduler with another rate: 8*size/rate of THAT scheduler
        eq = (lambda x, y: x == y) if case["flavour"] == "exact" else vnet.close
        for s0, e0, size in run.ds_tx:
            stats["downstream_transmissions"] += 1
            if s0 is not None and not eq(e0 - s0, size * 8.0 / run.ds_rate) and not eq(e0, s0 + size * 8.0 / run.ds_rate):
                run.bad("transmission-duration-wrong[second scheduler on the path]", "a transmission did not last exactly 8*size/rate",
                        {"start": s0, "end": e0, "size": size, "rate": run.ds_rate})
                break
    stats["counter_checks"] += run.counter_checks
    return run


def one_case(ctx, case):
    import collections
    stats = collections.Counter({k: 0 for k in KEYS})
    run = run_case(case, stats)
    vs.count_features(ctx, run)
    cfg = case["cfg"]
    stats["kind_" + cfg["kind"]] += 1
    if case.get("fractional_sizes"):
        stats["fractional_size_cases"] += 1
    if cfg["cmap"] in ("mod2", "mod3") and cfg["kind"] in ("WFQ", "VC", "DRR") and len(cfg["classes"]) < len(cfg["flows"]):
        stats["many_to_one_cases"] += 1
    for k in KEYS:
        ctx.count(k, stats[k])
    nt = stats["back_to_back"] >= 2 and stats["idle_then_arrival"] >= 1 and stats["arrival_at_tx_end"] >= 1
    viol = [(m + f"[{cfg['kind']}]" if not m.startswith("exception") else m + f"[{cfg['kind']},{'identity' if cfg['cmap']=='identity' else 'flow2class!=identity'}]",
             w, x) for m, w, x in run.viol]
    return viol, nt


def run_shard(ctx):
    for i in ctx.cases(ncases(ctx.tier)):
        case = gen_case(ctx.rng(i), i)
        viol, nt = one_case(ctx, case)
        for m, what, wit in viol:
            ctx.violation(m, what, wit, case)
        ctx.case_done(case, nt)


def replay(ctx, case):
    viol, _ = one_case(ctx, case)
    for m, what, wit in viol:
        ctx.violation(m, what, wit, case)
