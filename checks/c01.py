"""C01 -- events take effect in time order, urgent first, then in trigger order.

Deciding monitors (DESIGN.md section 4/C01):
  * shadow agenda keyed (due, urgent<normal, trigger seq) fed at trigger time by the harness and
    popped at every observed occurrence (probe callback / first statement / Interrupt caught /
    return of run(until=t)); the observed occurrence must be the shadow minimum and now == due;
  * clock monotone along the tape;
  * spec-kernel (vlib.speckernel) tape equality;
  * timeout(d < 0) refused with ValueError, -0.0 and 0 accepted.
"""
from vlib import kern, speckernel

PID = "C01"
LEVEL = "exploration"
ANCHORS = ["onl/sim/core.py", "onl/sim/events.py"]
RULE = ("random process programs (1-5 top-level processes + spawned children, 2-9 ops each: timeouts with "
        "grid/decimal/zero delays, shared events, joins, spawns, interrupts, 0-3 numeric run-until stops at due "
        "instants) from Random('C01:seed:shard:case'); non-trivial = the execution contained an instant with "
        "occurrences of both classes AND an instant with >=3 occurrences of one class; distinct by program hash")
ASSUMPTIONS = ["the harness triggers everything it observes, so trigger order is known at trigger time",
               "conditions and resources are excluded from C01 programs (their triggers are internal); they are "
               "covered by the spec-kernel comparison in C05/C06/C07"]
FLOORS = {"quick": {"agenda_pops": 20000, "mixed_class_instants": 500, "same_class_triples": 500,
                    "spec_compared": 1000, "stops_reached": 100, "negative_delay_probes": 10, "long_history_cases": 4},
          "thorough": {"agenda_pops": 400000, "mixed_class_instants": 10000, "same_class_triples": 10000,
                       "spec_compared": 20000, "stops_reached": 2000, "negative_delay_probes": 10, "long_history_cases": 48}}
# floors for the situations added with the later rounds of seeded changes (evidence that they were really exercised)
FLOORS["quick"].update({'timeouts_by_class_constructor': 4000, 'chained_triggers_fired': 80, 'interrupts_issued_from_plain_callbacks': 300})
FLOORS["thorough"].update({'timeouts_by_class_constructor': 20000, 'chained_triggers_fired': 400, 'interrupts_issued_from_plain_callbacks': 1500})
FLOORS["quick"].update({'rational_clock_programs': 300})
FLOORS["thorough"].update({'rational_clock_programs': 1500})
FLOORS["quick"].update({'programs_with_timeouts_at_infinity': 350})
FLOORS["thorough"].update({'programs_with_timeouts_at_infinity': 1750})

PROFILE = {"weights": {"timeout": 6, "zero": 2, "wait": 2, "succeed": 2, "fail": 0.5, "spawn": 2, "join": 2,
                       "interrupt": 3, "cb": 0.5, "cond": 0, "cbint": 0.3, "chain": 0.2},
           "max_top": 5, "max_child_scripts": 3, "max_ev": 3, "p_exact": 0.7, "p_raise": 0.05, "p_catch": 0.85,
           "t0": [0, 0, 0, 5, 2.5], "p_rational": 0.06, "p_inf_delay": 0.01}


def plan(tier):
    return {"shards": 4, "timeout": 300} if tier == "quick" else {"shards": 16, "timeout": 3400}


def ncases(tier):
    return 8000 if tier == "quick" else 80000


def pick_stops(rng, times, t0):
    ts = sorted({t for t in times if t > t0})
    if not ts or rng.random() < 0.3:
        return []
    out = set()
    for _ in range(rng.randint(1, 3)):
        r = rng.random()
        t = rng.choice(ts)
        if r < 0.6:
            out.add(t)                       # coincides with due occurrences
        elif r < 0.8:
            out.add(t + 0.5)
        else:
            out.add(round(t + rng.choice([0.07, 0.31, 0.49]), 2))
    return sorted(out)


def one_case(ctx, prog, stops):
    K = kern.RealK.load()
    mon = kern.Monitor(agenda=True, waiters=False, interrupts=False)
    r = kern.Runner(K, prog, mon=mon)
    r.start()
    reached = r.run_with_stops(stops)
    viol = list(mon.finish())
    kern.count_extras(ctx, r)
    for t, now in reached:
        ctx.count("stops_reached")
        if now != t:
            viol.append(("run-until-returned-at-wrong-time", "run(until=t) returned with now != t",
                         {"t": t, "now": now}))
    # clock monotone along the tape
    last = None
    for e in r.tape:
        if last is not None and e[0] < last:
            viol.append(("clock-decreased", "simulated time decreased along the tape", [last, e[0]]))
            break
        last = e[0]
    # spec kernel
    sr = kern.Runner(speckernel.K, prog)
    sr.start()
    sr.run_with_stops(stops)
    ctx.count("spec_compared")
    i = kern.first_diff(r.tape, sr.tape)
    if i is not None:
        a = r.tape[i] if i < len(r.tape) else None
        b = sr.tape[i] if i < len(sr.tape) else None
        viol.append(("spec-divergence:" + kern.diff_kind((i, a, b)),
                     "tape of the real kernel differs from the tape of the spec kernel",
                     {"index": i, "real": a, "spec": b}))
    for k, v in mon.n.items():
        if k == "max_group":
            ctx.peak("max_same_instant_group", v)
        else:
            ctx.count(k, v)
    ctx.count("tape_entries", len(r.tape))
    ctx.count("flavour_" + prog["flavour"])
    nontrivial = mon.n["mixed_class_instants"] >= 1 and mon.n["same_class_triples"] >= 1
    return viol, nontrivial


def mech_name(m, wit):
    # name the kind of occurrence, never its random label
    if m in ("effect-at-wrong-time", "effect-without-trigger") and isinstance(wit, dict) and "label" in wit:
        return f"{m}[{wit['label'][0]}]"
    return m


def negative_delay_probes(ctx):
    K = kern.RealK.load()
    env = K.Environment()
    forms = {"env.timeout(d)": lambda d: env.timeout(d), "env.timeout(delay=d)": lambda d: env.timeout(delay=d),
             "Timeout(env, d)": lambda d: K.Timeout(env, d), "Timeout(env, delay=d, value=1)": lambda d: K.Timeout(env, delay=d, value=1)}
    for form, mk in forms.items():
        for d in (-1, -0.5, -1e-9, -1e-300, float("-inf"), -3):
            ctx.count("negative_delay_probes")
            try:
                mk(d)
                ctx.violation("negative-delay-accepted", "a timeout with a negative delay was not refused with ValueError",
                              {"delay": repr(d), "form": form}, {"probe": "negative_delay", "delay": repr(d)})
            except ValueError:
                pass
            except Exception as e:
                ctx.violation("negative-delay-wrong-exception", "a timeout with a negative delay raised something other than ValueError",
                              {"delay": repr(d), "exc": repr(e), "form": form}, {"probe": "negative_delay"})
    if env.peek() != float("inf"):
        ctx.violation("negative-delay-accepted", "a refused timeout was scheduled nevertheless", {"peek": env.peek()},
                      {"probe": "negative_delay"})
    for d in (0, 0.0, -0.0, 1e-300):
        ctx.count("negative_delay_probes")
        try:
            env.timeout(d)
        except Exception as e:
            ctx.violation("non-negative-delay-refused", "timeout with a non-negative delay was refused",
                          {"delay": repr(d), "exc": repr(e)}, {"probe": "zero_delay"})


def long_history_case(rng):
    """one environment that schedules > 65536 events while old ordinary events stay pending, then urgent
    occurrences (process start, interrupt, numeric stop) are triggered at the very instant those are due"""
    n = rng.choice([66000, 70000, 90000, 140000])
    T = 128
    tick = T / (n + 1000)
    scripts = [
        {"ops": [["timeout", T], ["spawn", 3], ["interrupt", 1], ["timeout", 0]], "on_fail": "catch", "on_int": "next", "end": None},
        {"ops": [["timeout", T], ["timeout", 1]], "on_fail": "catch", "on_int": "next", "end": None},
        {"ops": [["timeout", tick]] * n, "on_fail": "catch", "on_int": "next", "end": None},
        {"ops": [["timeout", 0], ["timeout", 1]], "on_fail": "catch", "on_int": "next", "end": ["ret", "child"]},
    ]
    prog = {"flavour": "float", "t0": 0, "nev": 0, "scripts": scripts, "top": [0, 1, 2]}
    return {"program": prog, "stops": [T] if rng.random() < 0.5 else [], "long_history": n}


def make_case(rng):
    prog = kern.gen_program(rng, PROFILE)
    K = kern.RealK.load()
    pre = kern.run_on(speckernel.K, prog)       # instants at which something is due
    stops = pick_stops(rng, [e[0] for e in pre.tape], prog["t0"]) if prog["flavour"] != "rational" else []
    return {"program": prog, "stops": stops}


def run_shard(ctx):
    if ctx.shard == 0:
        negative_delay_probes(ctx)
    else:
        ctx.count("negative_delay_probes", 0)
    for j in range(1 if ctx.tier == "quick" else 3):
        case = long_history_case(ctx.rng("long", j))
        kern.Runner.STEP_CAP, cap0 = 10 ** 7, kern.Runner.STEP_CAP
        try:
            viol, nt = one_case(ctx, case["program"], case["stops"])
        finally:
            kern.Runner.STEP_CAP = cap0
        ctx.count("long_history_cases")
        slim = {"long_history": case["long_history"], "stops": case["stops"], "regen": ["long", j]}
        for m, what, wit in viol:
            ctx.violation(mech_name(m, wit) + "[after >65536 scheduled events]", what, wit, slim)
        ctx.case_done(slim, True)
    for i in ctx.cases(ncases(ctx.tier)):
        case = make_case(ctx.rng(i))
        viol, nt = one_case(ctx, case["program"], case["stops"])
        if i % 4 == 0:
            bv, n = kern.bare_spec_violation(case["program"])
            viol += bv
            ctx.count("bare_runs_compared")
        for m, what, wit in viol:
            ctx.violation(mech_name(m, wit), what, wit, case)
        ctx.case_done(case, nt)


def replay(ctx, case):
    if "probe" in case:
        return negative_delay_probes(ctx)
    if "long_history" in case:
        case = long_history_case(ctx.rng(*case["regen"]))
        kern.Runner.STEP_CAP = 10 ** 7
    viol, _ = one_case(ctx, case["program"], case["stops"])
    viol += kern.bare_spec_violation(case["program"])[0]
    for m, what, wit in viol:
        ctx.violation(mech_name(m, wit), what, wit, case)
