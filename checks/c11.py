"""C11 -- token-bucket output conforms to (rate, bucket) and delays nothing needlessly.

Monitors (DESIGN.md 4/C11): exact reference shaper over the tap log (earliest conforming instant,
bit-exact on dyadic workloads, 1e-9 relative on decimal ones); independently of the reference the
pairwise conformance inequality over a sliding window and the peak spacing; two-rate: shaping
reference against (PIR, PBS) (or (CIR, CBS) without PIR), red <=> had to wait for peak tokens,
single-bucket colours exactly, green-conformance inequality, must-be-green after a long idle.
"""
from vlib import net as vnet

PID = "C11"
LEVEL = "exploration"
ANCHORS = ["onl/netdev/token_bucket.py", "onl/netdev/two_level_token_bucket.py"]
RULE = ("random arrival workloads (same-instant bursts, idle periods longer than the fill time, packets larger than the "
        "bucket, packets with bytes payloads of other lengths than their size, packets handed in before the next hop is connected) x rates / bucket sizes / peak on-off for TokenBucket and CIR/CBS/PIR/PBS on-off for TwoRateTokenBucket; "
        "exact flavour uses dyadic quantities (8/rate a power of two) so every mathematically equivalent implementation "
        "gives bit-identical instants; non-trivial = some packet had to wait for tokens AND some packet found the bucket "
        "capped after an idle period; distinct by case hash")
ASSUMPTIONS = ["with PIR the committed bucket's exact evolution is not fixed by the statement: yellow/green is checked through "
               "the green-conformance inequality and the must-be-green-after-full-refill rule, red exactly"]
FLOORS = {"quick": {"departures_checked": 30000, "waited_for_tokens": 5000, "cap_hit_after_idle": 1000,
                    "oversize_packets": 500, "pair_inequalities": 200000, "peak_spacings": 5000,
                    "colours_checked": 10000, "red": 1000, "yellow": 1000, "green": 1000,
                    "green_pairs": 50000, "must_be_green": 300, "zero_peak_bucket_heads": 50},
          "thorough": {"departures_checked": 600000, "waited_for_tokens": 100000, "cap_hit_after_idle": 20000,
                       "oversize_packets": 10000, "pair_inequalities": 4000000, "peak_spacings": 100000,
                       "colours_checked": 200000, "red": 20000, "yellow": 20000, "green": 20000,
                       "green_pairs": 1000000, "must_be_green": 6000, "zero_peak_bucket_heads": 1000}}
KEYS = tuple(FLOORS["quick"].keys()) + ("tb_cases", "trtb_cases", "exact_cases", "float_cases", "fast_cases", "precoloured_packets", "same_object_again", "debug_tracing_cases", "zero_size_packets", "phased_cases", "parameter_reassignments", "payload_length_differs_from_size", "put_before_out_connected")
# floors for the situations added with the later rounds of seeded changes (evidence that they were really exercised)
FLOORS["quick"].update({'same_object_again': 2500})
FLOORS["thorough"].update({'same_object_again': 12500})
FLOORS["quick"].update({'debug_tracing_cases': 150, 'zero_size_packets': 2000})
FLOORS["thorough"].update({'debug_tracing_cases': 750, 'zero_size_packets': 10000})
FLOORS["quick"].update({'parameter_reassignments': 100})
FLOORS["thorough"].update({'parameter_reassignments': 500})
FLOORS["quick"].update({'payload_length_differs_from_size': 2000, 'put_before_out_connected': 150})
FLOORS["thorough"].update({'payload_length_differs_from_size': 10000, 'put_before_out_connected': 750})


def plan(tier):
    return {"shards": 4, "timeout": 900} if tier == "quick" else {"shards": 16, "timeout": 3400}


def ncases(tier):
    return 1500 if tier == "quick" else 40000


def gen_case(rng, i):
    if i % 10 == 7:
        return gen_phased(rng)
    flavour = "exact" if rng.random() < 0.65 else "float"
    two = rng.random() < 0.5
    fast = (not two) and rng.random() < 0.12
    if fast:
        # Gbit/s rates with sub-microsecond gaps: tokens worth a fraction of a microsecond matter
        flavour = "float"
        rate = rng.choice([1e9, 4e8])
        sizes = [100, 64]
    elif flavour == "exact":
        rate = rng.choice([8192, 4096, 16384])            # bytes/s = rate/8 = power of two
        sizes = rng.choice([[128], [64, 256], [128, 512, 1024], [256, 2048]])
    else:
        rate = rng.choice([8000, 3000, 12345.0])
        sizes = rng.choice([[100], [100, 300], [64, 500, 1500], [1000, 4000]])
    B = rng.choice([min(sizes), max(sizes), 2 * max(sizes), 3 * max(sizes) + 17 if flavour == "float" else 4 * max(sizes),
                    max(1, min(sizes) // 2)])
    n = rng.randint(3, 80)
    arr = vnet.gen_arrivals(rng, 2, flavour, n, sizes, None, burst_p=0.5)
    # long idles
    shift = 0
    for a in arr:
        if rng.random() < 0.08:
            shift += rng.choice([8, 32, 64])
        a["t"] += shift
        a["age"] = rng.choice([0, 0, 0, 0.5, 2, 7.25])        # creation stamps are not in arrival order
    if fast:
        B = rng.choice([3000, 1000, 500])
        t = 0.0
        for a in arr:
            t += rng.choice([0.9e-6, 0.5e-6, 0.3e-6, 2e-6, 0.0])
            a["t"] = t
            a["split"] = 0
    # the same Packet object handed in again while its earlier submission may still be waiting
    for k in range(1, len(arr)):
        if rng.random() < 0.1 and arr[k].get("drv", 0) == arr[k - 1].get("drv", 0):
            arr[k]["again"] = True
            arr[k]["size"] = arr[k - 1]["size"]
    # some packets arrive already carrying a colour from an upstream meter
    for a in arr:
        if rng.random() < 0.25:
            a["precolour"] = rng.choice(["green", "yellow", "red"])
    case = {"flavour": flavour, "arrivals": arr, "fast": fast, "debug": rng.random() < 0.15}       # (tracing switched on changes nothing)
    if rng.random() < 0.2:
        # packets that carry application data: the shaper charges the packet's size, whatever the payload's length
        for a in arr:
            if not a.get("again") and rng.random() < 0.7:
                a["payload_len"] = rng.choice([0, 1, max(1, a["size"] // 2), a["size"], 2 * a["size"] + 3, 4000])
    if rng.random() < 0.15:
        # the first packets are handed in while the element is not yet connected to its next hop (wired before the run starts)
        case["prewire"] = [rng.choice(sizes) for _ in range(rng.randint(1, 4))]
    if not fast and rng.random() < 0.25:
        # zero-length packets (end-of-stream markers) in between
        for a in arr:
            if rng.random() < 0.2 and not a.get("again"):
                a["size"] = 0
        for k in range(1, len(arr)):
            if arr[k].get("again"):
                arr[k]["size"] = arr[k - 1]["size"]
    if not two:
        case.update({"kind": "tb", "rate": rate, "bucket": B,
                     "peak": rng.choice([None, None, rate * 4, rate * 2, rate * 8, rate, rate / 2])})
    else:
        pir = rng.choice([None, rate * 2, rate * 4])
        case.update({"kind": "trtb", "cir": rate, "cbs": B, "pir": pir,
                     "pbs": None if pir is None else rng.choice([B, 2 * B, max(sizes), B + max(sizes)])})
    return case


def shaper_reference(heads, rate, B):
    """heads: list of (arrival, size); returns list of (head instant, debit instant, tokens at head, waited)"""
    out = []
    tokens, last, finish = B, 0.0, None
    for a, size, extra in heads:
        h = a if finish is None or finish <= a else finish
        tokens = min(B, tokens + rate * (h - last) / 8.0)
        at_head = tokens
        if size > tokens:
            s = h + (size - tokens) * 8.0 / rate
            tokens = 0.0
            waited = True
        else:
            s = h
            tokens -= size
            waited = False
        last = s
        finish = s + extra(size)
        out.append((h, s, at_head, waited, finish))
    return out


def run_case(case, stats):
    from onl.netdev import TokenBucket, TwoRateTokenBucket
    viol = []

    def bad(m, what, wit=None):
        if len(viol) < 4:
            viol.append((m, what, wit))

    net = vnet.Net()
    env = net.env
    exact = case["flavour"] == "exact"
    eq = (lambda a, b: a == b) if exact else (lambda a, b: vnet.close(a, b, rel=1e-9, abs_=1e-13))
    if case["kind"] == "tb":
        el = TokenBucket(env, case["rate"], case["bucket"], peak=case["peak"], debug=bool(case.get("debug")))
        rate, B, peak = case["rate"], case["bucket"], case["peak"]
        stats["tb_cases"] += 1
    else:
        el = TwoRateTokenBucket(env, case["cir"], case["cbs"], case["pir"], case["pbs"], debug=bool(case.get("debug")))
        if case["pir"]:
            rate, B = case["pir"], case["pbs"]
        else:
            rate, B = case["cir"], case["cbs"]
        peak = None
        stats["trtb_cases"] += 1
    stats[case["flavour"] + "_cases"] += 1
    sink = net.recorder("sink")
    net.tap_put(el, "tb")
    for k, size in enumerate(case.get("prewire") or []):
        el.put(net.make_packet(0, size, 9000 + k))
        stats["put_before_out_connected"] += 1
    el.out = sink
    cols_at_out = []
    oput = sink.put

    def sput(p):
        cols_at_out.append(p.color)          # (one object may pass several times: its colour is read when it leaves)
        oput(p)
    sink.put = sput

    def precolour(p, a):
        if a.get("precolour"):
            p.color = a["precolour"]
            stats["precoloured_packets"] += 1
        if a.get("again"):
            stats["same_object_again"] += 1
        elif "payload_len" in a and a["payload_len"] != a["size"]:
            stats["payload_length_differs_from_size"] += 1
    for d in (0, 1):
        mine = [a for a in case["arrivals"] if a.get("drv", 0) % 2 == d]
        if mine:
            net.driver(el, mine, on_inject=precolour)
    if case.get("fast"):
        stats["fast_cases"] += 1
    if case.get("debug"):
        stats["debug_tracing_cases"] += 1
    stats["zero_size_packets"] += sum(1 for a in case["arrivals"] if a["size"] == 0)
    err = net.run()
    if err:
        bad(err, "the run raised", net.errors[-1] if net.errors else err)
        return viol
    ins = net.tape.of("tb", "in")
    outs = net.tape.of("sink", "out")
    if [e[5] for e in ins] != [e[5] for e in outs]:
        bad("lost-or-reordered", "the shaper did not release every packet exactly once in FIFO order",
            {"in": [e[5] for e in ins][:10], "out": [e[5] for e in outs][:10]})
        return viol
    heads = [(e[2], e[6], (lambda sz: sz * 8.0 / peak) if peak else (lambda sz: 0.0)) for e in ins]
    ref = shaper_reference(heads, rate, B)
    D = [o[2] for o in outs]
    sizes = [e[6] for e in ins]
    for k, (h, s, at_head, waited, fin) in enumerate(ref):
        stats["departures_checked"] += 1
        if waited:
            stats["waited_for_tokens"] += 1
        if at_head == B and k > 0 and h > ref[k - 1][1]:
            stats["cap_hit_after_idle"] += 1
        if sizes[k] > B:
            stats["oversize_packets"] += 1
        if at_head == 0 and case["kind"] == "trtb" and case["pir"]:
            stats["zero_peak_bucket_heads"] += 1
        if not eq(D[k], fin):
            mech = "released-early" if D[k] < fin else "released-late"
            bad(f"{mech}[{case['kind']}]", "a packet was not released at the earliest instant at which the bucket covers it",
                {"k": k, "arrival": heads[k][0], "size": sizes[k], "head": h, "tokens_at_head": at_head, "expected": fin,
                 "got": D[k], "rate": rate, "bucket": B, "peak": peak, "flavour": case["flavour"]})
            return viol
    # independent inequalities on the observed departures
    s_obs = [D[k] - (sizes[k] * 8.0 / peak if peak else 0.0) for k in range(len(D))]
    tol = 0 if exact else 1e-6
    W = 40
    for i in range(len(D)):
        tot = 0
        for j in range(i, min(len(D), i + W)):
            tot += sizes[j]
            stats["pair_inequalities"] += 1
            if tot > max(B, sizes[i]) + rate * (s_obs[j] - s_obs[i]) / 8.0 + tol:
                bad(f"conformance-inequality-violated[{case['kind']}]",
                    "released bytes exceed max(bucket, size_i) + rate*(t_j - t_i)/8",
                    {"i": i, "j": j, "bytes": tot, "allowed": max(B, sizes[i]) + rate * (s_obs[j] - s_obs[i]) / 8.0})
                return viol
    if peak:
        for k in range(1, len(D)):
            stats["peak_spacings"] += 1
            if D[k] - D[k - 1] < sizes[k] * 8.0 / peak - (0 if exact else 1e-9):
                bad("peak-spacing-violated", "consecutive departures are closer than 8*size/peak",
                    {"k": k, "gap": D[k] - D[k - 1], "min": sizes[k] * 8.0 / peak})
                return viol
    if case["kind"] == "trtb":
        cols = cols_at_out
        cir, cbs = case["cir"], case["cbs"]
        greens = []
        for k, c in enumerate(cols):
            stats["colours_checked"] += 1
            stats[c if c in ("red", "yellow", "green") else "other"] += 1
            h, s, at_head, waited, fin = ref[k]
            if c not in ("red", "yellow", "green"):
                bad("packet-not-coloured", "a packet left the two-rate bucket without a colour", repr(c))
                return viol
            if case["pir"]:
                if (c == "red") != waited:
                    bad("red-colour-wrong", "red must mark exactly the packets that had to wait for peak tokens",
                        {"k": k, "colour": c, "waited_for_peak": waited, "tokens_at_head": at_head, "size": sizes[k]})
                    return viol
            else:
                want = "yellow" if waited else "green"
                if c != want:
                    bad("single-bucket-colour-wrong", "without PIR a packet is green iff the committed bucket covered it, else yellow",
                        {"k": k, "colour": c, "expected": want})
                    return viol
            if c == "green":
                greens.append((s, sizes[k]))
            # must be green: both buckets certainly full at the head (idle since the previous debit for
            # at least the longest fill time) and the packet fits both
            if k > 0:
                idle = h - ref[k - 1][1]
                fill = cbs * 8.0 / cir
                if case["pir"]:
                    fill = max(fill, case["pbs"] * 8.0 / case["pir"])
                if idle >= fill and sizes[k] <= cbs and (not case["pir"] or sizes[k] <= case["pbs"]):
                    stats["must_be_green"] += 1
                    if c != "green":
                        bad("not-green-although-all-buckets-full", "a packet that found every configured bucket full and fits them was not green",
                            {"k": k, "colour": c, "idle": idle, "fill_time": fill, "size": sizes[k]})
                        return viol
            elif sizes[k] <= cbs and (not case["pir"] or sizes[k] <= case["pbs"]):
                stats["must_be_green"] += 1
                if c != "green":
                    bad("not-green-although-all-buckets-full", "the first packet fits the initially full buckets but was not green",
                        {"k": k, "colour": c})
                    return viol
        for i in range(len(greens)):
            tot = 0
            for j in range(i, min(len(greens), i + W)):
                tot += greens[j][1]
                stats["green_pairs"] += 1
                if tot > cbs + cir * (greens[j][0] - greens[i][0]) / 8.0 + tol:
                    bad("green-not-conformant", "green traffic exceeds CBS + CIR*(t_j - t_i)/8",
                        {"i": i, "j": j, "bytes": tot, "allowed": cbs + cir * (greens[j][0] - greens[i][0]) / 8.0})
                    return viol
    return viol


def gen_phased(rng):
    """the public parameters (rate, bucket sizes) are reassigned while the simulation runs, during an idle period long
    enough to fill every bucket under the old and the new values; the second phase is shaped by the new values"""
    two = rng.random() < 0.5
    rate = rng.choice([8192, 4096, 16384])
    sizes = rng.choice([[128], [64, 256], [128, 512, 1024]])
    B = rng.choice([max(sizes), 2 * max(sizes), 4 * max(sizes)])
    case = {"kind": "phased", "two": two, "flavour": "exact", "phases": []}
    for ph in (0, 1):
        r = rate if ph == 0 else rng.choice([rate, rate * 2, rate // 2, rate * 4])
        b = B if ph == 0 else rng.choice([B, max(sizes), 2 * B, max(1, B // 2)])
        arr = vnet.gen_arrivals(rng, 2, "exact", rng.randint(3, 25), sizes, None, burst_p=0.6)
        d = {"rate": r, "bucket": b, "arrivals": arr}
        if two:
            d["pir"] = rng.choice([None, None, r * 2]) if ph == 0 else None
            d["pbs"] = None
        case["phases"].append(d)
    if two:
        pir = case["phases"][0]["pir"]
        for ph, d in enumerate(case["phases"]):
            d["pir"] = pir
            d["pbs"] = None if pir is None else rng.choice([d["bucket"], 2 * d["bucket"], max(sizes)])
    return case


def run_phased(case, stats):
    from onl.netdev import TokenBucket, TwoRateTokenBucket
    viol = []

    def bad(m, what, wit=None):
        if len(viol) < 4:
            viol.append((m, what, wit))
    net = vnet.Net()
    env = net.env
    p0, p1 = case["phases"]
    if case["two"]:
        el = TwoRateTokenBucket(env, p0["rate"], p0["bucket"], p0["pir"], p0["pbs"])
    else:
        el = TokenBucket(env, p0["rate"], p0["bucket"])
    sink = net.recorder("sink")
    el.out = sink
    net.tap_put(el, "tb")
    cols = []
    oput = sink.put

    def sput(p):
        cols.append(p.color)
        oput(p)
    sink.put = sput
    caps = [d["bucket"] for d in (p0, p1)] + [d["pbs"] for d in (p0, p1) if d.get("pbs")]
    rates = [d["rate"] for d in (p0, p1)]
    fill = max(caps) * 8.0 / min(rates)
    end0 = max(a["t"] for a in p0["arrivals"]) + sum(a["size"] for a in p0["arrivals"]) * 8.0 / min(rates) + 1
    t_change = end0 + fill + 1
    t_start1 = t_change + fill + 1
    arr = [dict(a, drv=0) for a in p0["arrivals"]] + [dict(a, t=a["t"] + t_start1, drv=0) for a in p1["arrivals"]]
    net.driver(el, arr)

    def reconfigure():
        yield env.timeout(t_change)
        if case["two"]:
            el.cir, el.cbs = p1["rate"], p1["bucket"]
            if p1["pir"]:
                el.pbs = p1["pbs"]
        else:
            el.rate, el.bucket_size = p1["rate"], p1["bucket"]
        stats["parameter_reassignments"] += 1
    env.process(reconfigure())
    err = net.run()
    if err:
        bad(err, "the run raised", net.errors[-1] if net.errors else err)
        return viol
    stats["phased_cases"] += 1
    ins = net.tape.of("tb", "in")
    outs = net.tape.of("sink", "out")
    if [e[5] for e in ins] != [e[5] for e in outs]:
        bad("lost-or-reordered", "the shaper did not release every packet exactly once in FIFO order", None)
        return viol
    n0 = len(p0["arrivals"])
    k = 0
    for ph, (d, part) in enumerate(((p0, ins[:n0]), (p1, ins[n0:]))):
        if case["two"] and d["pir"]:
            rate, B = d["pir"], d["pbs"]
        else:
            rate, B = d["rate"], d["bucket"]
        base = part[0][2] if ph == 1 and part else 0.0
        heads = [(e[2] - (t_start1 if ph == 1 else 0), e[6], (lambda sz: 0.0)) for e in part]
        ref = shaper_reference(heads, rate, B)
        for j, (h, s, at_head, waited, fin) in enumerate(ref):
            D = outs[k][2] - (t_start1 if ph == 1 else 0)
            stats["departures_checked"] += 1
            if D != fin:
                bad("released-early[after-parameter-change]" if D < fin else "released-late[after-parameter-change]" if ph == 1 else
                    ("released-early" if D < fin else "released-late") + ("[trtb]" if case["two"] else "[tb]"),
                    "a packet was not released at the earliest instant at which the bucket (with the parameters in force) covers it",
                    {"phase": ph, "k": j, "expected": fin, "got": D, "rate": rate, "bucket": B, "size": part[j][6]})
                return viol
            if case["two"]:
                c = cols[k]
                want_red = bool(d["pir"]) and waited
                if d["pir"] and (c == "red") != want_red:
                    bad("red-colour-wrong" + ("[after-parameter-change]" if ph == 1 else ""), "red must mark exactly the packets that had to wait for peak tokens",
                        {"phase": ph, "k": j, "colour": c, "waited": waited})
                    return viol
                if not d["pir"] and c != ("yellow" if waited else "green"):
                    bad("single-bucket-colour-wrong" + ("[after-parameter-change]" if ph == 1 else ""), "without PIR a packet is green iff the committed bucket covered it, else yellow",
                        {"phase": ph, "k": j, "colour": c, "waited": waited})
                    return viol
            k += 1
    return viol


def one_case(ctx, case):
    import collections
    stats = collections.Counter({k: 0 for k in KEYS})
    viol = run_phased(case, stats) if case.get("kind") == "phased" else run_case(case, stats)
    for k in KEYS:
        ctx.count(k, stats[k])
    return viol, stats["waited_for_tokens"] >= 1 and stats["cap_hit_after_idle"] >= 1


def run_shard(ctx):
    for i in ctx.cases(ncases(ctx.tier)):
        case = gen_case(ctx.rng(i), i)
        viol, nt = one_case(ctx, case)
        for m, what, wit in viol:
            ctx.violation(m, what, wit, case)
        ctx.case_done(case, nt)


def replay(ctx, case):
    viol, _ = one_case(ctx, case)
    for m, what, wit in viol:
        ctx.violation(m, what, wit, case)
