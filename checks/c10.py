"""C10 -- a wire delays each packet by its drawn delay, keeps order, loses only by rate.

Oracle over the tap log: entry instants from the put() tap, delays from the harness-scripted
delay_dist (I5), deliveries from the out recorder:  D_i = max(a_i + d_i, D_{i-1}) for the
delivered packets (lost ones removed); FIFO; exactly-once; loss none / all / consistent with
p (Hoeffding band, false-alarm budget 1e-12) and lag-1 independent; Cable = two independent wires.
"""
import math
import random

from vlib import net as vnet

PID = "C10"
LEVEL = "exploration"
ANCHORS = ["onl/netdev/wire.py"]
RULE = ("random arrival sequences (same-instant bursts, arrivals while an earlier packet propagates) x scripted delay "
        "sequences (constant, decreasing, random, zero) x loss in {None, 0, p, 1}; Wire and Cable (both directions, "
        "delay a pure function of the dequeue instant); exact (dyadic, bit-exact comparison) and float (1e-9 rel) "
        "flavours; non-trivial = some packet arrived while an earlier one was still propagating AND some packet was "
        "delivered later than its own a+d because of its predecessor; distinct by case hash")
ASSUMPTIONS = ["the k-th delay draw belongs to the k-th delivered packet, or to the k-th entered packet if the wire "
               "draws a delay for every packet (both alignments accepted)",
               "loss statistics: Hoeffding bound with false-alarm budget 1e-12 per configuration"]
FLOORS = {"quick": {"deliveries_checked": 30000, "held_back_by_predecessor": 3000, "arrived_during_propagation": 5000,
                    "loss_all_cases": 20, "loss_none_cases": 200, "loss_stat_packets": 40000, "cable_cases": 100,
                    "exact_cases": 300},
          "thorough": {"deliveries_checked": 600000, "held_back_by_predecessor": 60000,
                       "arrived_during_propagation": 100000, "loss_all_cases": 400, "loss_none_cases": 4000,
                       "loss_stat_packets": 800000, "cable_cases": 2000, "exact_cases": 6000}}
# floors for the situations added with the later rounds of seeded changes (evidence that they were really exercised)
FLOORS["quick"].update({'receivers_returning_pending_events': 20, 'same_object_reentries': 150})
FLOORS["thorough"].update({'receivers_returning_pending_events': 100, 'same_object_reentries': 750})
FLOORS["quick"].update({'huge_int_clock_cases': 12, 'negative_clock_cases': 60})
FLOORS["thorough"].update({'huge_int_clock_cases': 60, 'negative_clock_cases': 300})
FLOORS["quick"].update({'binomial_tail_checks': 20, 'many_in_flight_cases': 1})
FLOORS["thorough"].update({'binomial_tail_checks': 100, 'many_in_flight_cases': 2})


def plan(tier):
    return {"shards": 4, "timeout": 600} if tier == "quick" else {"shards": 16, "timeout": 3400}


def ncases(tier):
    return 400 if tier == "quick" else 5000


def gen_case(rng, i):
    if i % 12 == 5:
        return gen_same_object(rng)
    flavour = "exact" if rng.random() < 0.6 else "float"
    kind = "cable" if rng.random() < 0.25 else "wire"
    stat = (i % 12 == 0)
    n = rng.randint(3, 60) if not stat else 12000
    if stat:
        kind = "wire"
    arr = vnet.gen_arrivals(rng, 3, flavour, n, [100, 500, 1500], None)
    shape = rng.choice(["const", "decreasing", "random", "zero", "random", "alternating"])
    m = n + 5
    if flavour == "exact":
        pool = [0, 0.25, 0.5, 1, 2, 3, 4.5]
    else:
        pool = [0, 0.1, 0.33, 1.7, 2.05, 0.001, 3.3]
    if shape == "const":
        delays = [rng.choice(pool[1:])] * m
    elif shape == "zero":
        delays = [0] * m
    elif shape == "decreasing":
        top = rng.choice([4, 8, 16])
        delays = [max(0, top - (0.25 if flavour == "exact" else 0.3) * k) for k in range(m)]
    elif shape == "alternating":
        a, b = rng.choice(pool), rng.choice(pool)
        delays = [a if k % 2 == 0 else b for k in range(m)]
    else:
        delays = [rng.choice(pool) for _ in range(m)]
    if stat:
        loss = rng.choice([0.1, 0.3, 0.5, 0.8, 0.004, 0.996, 0.125, 0.015])      # (not only whole percents)
    else:
        loss = rng.choice([None, None, None, 0, 0, 1, 0.3, 0.5])
    case = {"kind": kind, "flavour": flavour, "arrivals": arr, "delays": delays, "loss": loss,
            "rseed": rng.randrange(1 << 30), "stat": stat,
            "t0": 0 if stat else rng.choice([0, 0, 0, 2 ** 20, 2 ** 30 if flavour == "exact" else 1.7e9, -100, -37.5])}
    if flavour == "exact" and not stat and kind == "wire" and rng.random() < 0.12:
        # an integer clock far beyond 2**53 (nanosecond epoch counters): every instant and delay is an int
        case["t0"] = rng.choice([10 ** 18 + 1, 2 ** 60 + 3, 1_700_000_000_000_000_001])
        case["delays"] = [int(d * 4) for d in delays]
        for a in arr:
            a["t"] = int(a["t"] * 4)
            a["split"] = 0
        case["int_clock"] = True
    for a in arr:
        a["t"] += case["t0"]
    if kind == "wire" and not stat and not case.get("int_clock") and rng.random() < 0.15:
        # the loss rate is reconfigured while the simulation runs, at quiet moments between phases
        case["phases"] = [rng.choice([None, 0, 1, 1]) for _ in range(3)]
        case["loss"] = case["phases"][0]
        per = max(1, len(arr) // 3)
        span = 0
        for k, a in enumerate(arr):
            a["phase"] = min(2, k // per)
        gap = max(delays) * 2 + 50
        shift, last_phase = 0, 0
        base = None
        for a in arr:
            if a["phase"] != last_phase:
                shift += gap
                last_phase = a["phase"]
            a["t"] += shift
        case["phase_gap"] = gap
    if kind == "wire" and not stat and rng.random() < 0.12:
        case["rx_returns_event"] = True
    if kind == "cable":
        case["arrivals2"] = vnet.gen_arrivals(rng, 3, flavour, rng.randint(2, 40), [100, 500], None)
        case["loss"] = rng.choice([None, None, 0])
    return case


def binom_two_sided_tail(n, p, k):
    """min(P(X <= k), P(X >= k)) * 2 for X ~ Binomial(n, p), computed from exact log-probabilities"""
    lp, lq = math.log(p), math.log1p(-p)
    logs = [math.lgamma(n + 1) - math.lgamma(j + 1) - math.lgamma(n - j + 1) + j * lp + (n - j) * lq for j in range(n + 1)]
    m = max(logs)
    w = [math.exp(x - m) for x in logs]
    tot = sum(w)
    lower = sum(w[:k + 1]) / tot
    upper = sum(w[k:]) / tot
    return min(1.0, 2 * min(lower, upper))


def close_ulps(a, b, n=16):
    """equal up to a few units in the last place of the larger magnitude (a *relative* tolerance would be blind
    on large clock values: 1e-9 * 1.7e9 seconds is more than any delay)"""
    return a == b or abs(a - b) <= n * math.ulp(max(abs(a), abs(b), 1e-300))


def check_direction(case, entered, delivered, delays_of, viol, stats, name):
    """entered: [(seq, t, uid)], delivered: [(seq, t, uid)]; delays_of(k_delivered, k_entered, deq_instant)"""
    exact = case["flavour"] == "exact"
    eq = (lambda a, b: a == b) if exact else close_ulps
    pos = {u: i for i, (_, _, u) in enumerate(entered)}
    seen = set()
    last_i = -1
    Dprev = None
    k = 0
    for (_, D, u) in delivered:
        if u not in pos:
            viol.append(("delivered-unknown-packet", "the wire delivered a packet that never entered it", {"wire": name, "uid": u}))
            continue
        if u in seen:
            viol.append(("delivered-twice", "the wire delivered one packet twice", {"wire": name, "uid": u}))
            continue
        seen.add(u)
        i = pos[u]
        if i < last_i:
            viol.append(("reordered", "the wire delivered packets out of entry order", {"wire": name}))
        last_i = max(last_i, i)
        a = entered[i][1]
        deq = a if Dprev is None else max(a, Dprev)
        d = delays_of(k, i, deq)
        want = a + d
        if Dprev is not None and Dprev > want:
            want = Dprev
            stats["held_back_by_predecessor"] += 1
        if Dprev is not None and a < Dprev:
            stats["arrived_during_propagation"] += 1
        stats["deliveries_checked"] += 1
        if not eq(D, want):
            if D < a + d and not eq(D, a + d):
                mech = "delivered-before-a-plus-d"
            elif D > want:
                mech = "held-longer-than-needed"
            else:
                mech = "delivery-time-wrong"
            viol.append((mech, "delivery time != max(a + d, delivery of the previous packet)",
                         {"wire": name, "a": a, "d": d, "prev": Dprev, "expected": want, "got": D, "flavour": case["flavour"]}))
            if len(viol) > 3:
                return seen
        Dprev = D
        k += 1
    return seen


def run_case(case, stats):
    from onl.netdev import Wire, Cable
    viol = []
    net = vnet.Net(case.get("t0", 0))
    env = net.env
    random.seed(case["rseed"])
    if case.get("t0"):
        stats["big_clock_cases"] += 1
    if case.get("t0", 0) < 0:
        stats["negative_clock_cases"] += 1
    if case.get("int_clock"):
        stats["huge_int_clock_cases"] += 1
    if case["kind"] == "wire" and "phases" in case:
        return run_phased(case, stats, net)
    if case["kind"] == "wire":
        delay = vnet.Script(case["delays"], net, "delay")
        w = Wire(env, delay, case["loss"])
        sink = net.recorder("sink")
        w.out = sink
        if case.get("rx_returns_event"):
            # a receiver that is itself a bounded store nobody drains: its put() returns a *pending* event from the
            # second packet on.  What the receiver returns is none of the wire's business.
            from onl.sim import Store
            box = Store(env, capacity=1)
            rput = sink.put

            def put_returning_event(p):
                rput(p)
                return box.put(p)
            sink.put = put_returning_event
            stats["receivers_returning_pending_events"] += 1
        net.tap_put(w, "wire")
        net.drivers(w, case["arrivals"])
        err = net.run()
        if err:
            viol.append((err, "the run raised", net.errors[-1] if net.errors else err))
            return viol
        entered = [(e[0], e[2], e[5]) for e in net.tape.of("wire", "in")]
        delivered = [(e[0], e[2], e[5]) for e in net.tape.of("sink", "out")]
        nd = len(delay.draws)
        loss = case["loss"]
        if len(entered) != len(case["arrivals"]):
            viol.append(("tap-missed-arrivals", "harness: not all arrivals were injected", None))
        if nd == len(delivered):
            dl = lambda k, i, deq: delay.draws[k][2]
        elif nd == len(entered):
            dl = lambda k, i, deq: delay.draws[i][2]
        else:
            viol.append(("delay-drawn-unexpected-number-of-times",
                         "the delay distribution was drawn neither once per delivered nor once per entered packet",
                         {"draws": nd, "entered": len(entered), "delivered": len(delivered)}))
            return viol
        seen = check_direction(case, entered, delivered, dl, viol, stats, "wire")
        n, kdel = len(entered), len(seen)
        if not loss:
            stats["loss_none_cases"] += 1
            if kdel != n:
                viol.append(("lost-without-loss-rate", "a wire without loss rate did not deliver every packet exactly once",
                             {"entered": n, "delivered": kdel, "loss": loss}))
        elif loss >= 1:
            stats["loss_all_cases"] += 1
            if kdel != 0:
                viol.append(("delivered-with-loss-rate-1", "a wire with loss rate 1 delivered a packet", {"delivered": kdel}))
        elif n >= 5000 and not viol:
            stats["loss_stat_packets"] += n
            lost = n - kdel
            band = math.sqrt(math.log(2 / 1e-12) / (2 * n))
            if abs(lost / n - loss) > band:
                viol.append(("loss-frequency-inconsistent-with-rate", "the observed loss frequency is outside the Hoeffding band around the loss rate",
                             {"n": n, "lost": lost, "rate": loss, "band": band}))
            else:
                # the exact binomial tail is much sharper than Hoeffding near 0 and 1 (p = 0.004: no loss at all among
                # 12000 packets has probability e^-48)
                tail = binom_two_sided_tail(n, loss, lost)
                stats["binomial_tail_checks"] += 1
                if tail < 1e-12:
                    viol.append(("loss-frequency-inconsistent-with-rate", "the observed number of losses has probability < 1e-12 under Binomial(n, loss rate)",
                                 {"n": n, "lost": lost, "rate": loss, "two_sided_tail": tail}))
            # lag-1 independence: P(lost_i and lost_{i+1}) ~ p^2
            flags = [0 if u in seen else 1 for (_, _, u) in entered]
            both = sum(1 for x, y in zip(flags, flags[1:]) if x and y)
            exp = loss * loss
            band2 = math.sqrt(math.log(2 / 1e-12) / (2 * (n - 1) / 2)) + band * 2
            if abs(both / (n - 1) - exp) > band2:
                viol.append(("losses-not-independent", "consecutive losses are correlated beyond a generous band",
                             {"pairs": both, "n": n, "expected_freq": exp}))
            # the same wire under another random seed must lose other packets (chance of equality ~ 0)
            if not viol and not case.get("_second"):
                other = dict(case, rseed=case["rseed"] + 7919, _second=True)
                net2 = vnet.Net()
                random.seed(other["rseed"])
                w2 = Wire(net2.env, vnet.Script(case["delays"], net2, "delay"), case["loss"])
                s2 = net2.recorder("sink")
                w2.out = s2
                net2.tap_put(w2, "wire")
                net2.drivers(w2, case["arrivals"])
                net2.run()
                ent2 = [e[5] for e in net2.tape.of("wire", "in")]
                del2 = {e[5] for e in net2.tape.of("sink", "out")}
                flags2 = [0 if u in del2 else 1 for u in ent2]
                stats["loss_seed_comparisons"] += 1
                if flags2 == flags:
                    viol.append(("loss-pattern-ignores-random-seed", "a wire lost exactly the same packets under two different random seeds: losses are not random draws",
                                 {"n": n, "lost": lost, "rate": loss}))
    else:
        stats["cable_cases"] += 1
        t00 = case.get("t0", 0)
        f = (lambda: (int((env.now - t00) * 4) % 5) * 0.5 + 0.25) if case["flavour"] == "exact" else \
            (lambda: (((env.now - t00) * 7.3) % 2.0) + 0.1)
        cab = Cable(env, f, case["loss"])
        d1, d2 = net.recorder("dev1"), net.recorder("dev2")
        cab.set_endpoints(d1, d2)
        if not (d1.out is cab.wire1 and cab.wire1.out is d2 and d2.out is cab.wire2 and cab.wire2.out is d1):
            viol.append(("cable-miswired", "Cable.set_endpoints did not wire dev1->wire1->dev2 and dev2->wire2->dev1", None))
            return viol
        net.tap_put(cab.wire1, "w1")
        net.tap_put(cab.wire2, "w2")
        net.driver(cab.wire1, case["arrivals"], src="A")
        net.driver(cab.wire2, case["arrivals2"], src="B")
        err = net.run()
        if err:
            viol.append((err, "the run raised", net.errors[-1] if net.errors else err))
            return viol

        def fn(t):
            t = t - t00
            return (int(t * 4) % 5) * 0.5 + 0.25 if case["flavour"] == "exact" else ((t * 7.3) % 2.0) + 0.1
        for wname, dname in (("w1", "dev2"), ("w2", "dev1")):
            entered = [(e[0], e[2], e[5]) for e in net.tape.of(wname, "in")]
            delivered = [(e[0], e[2], e[5]) for e in net.tape.of(dname, "out")]
            seen = check_direction(case, entered, delivered, lambda k, i, deq: fn(deq), viol, stats, wname)
            if len(seen) != len(entered):
                viol.append(("lost-without-loss-rate", "a cable direction without loss did not deliver every packet exactly once",
                             {"wire": wname, "entered": len(entered), "delivered": len(seen)}))
    return viol


def run_phased(case, stats, net):
    """loss rate changed between phases (through the public attribute); each phase must follow its own rate"""
    from onl.netdev import Wire
    viol = []
    env = net.env
    delay = vnet.Script(case["delays"], net, "delay")
    w = Wire(env, delay, case["phases"][0])
    sink = net.recorder("sink")
    w.out = sink
    net.tap_put(w, "wire")
    for a in case["arrivals"]:
        a["drv"] = 0
    phase_of = {}
    net.driver(w, case["arrivals"], on_inject=lambda p, a: phase_of.__setitem__(net.pk.uid[id(p)], a["phase"]))
    bounds = []
    for ph in (1, 2):
        first = min((a["t"] for a in case["arrivals"] if a["phase"] == ph), default=None)
        if first is not None:
            bounds.append((first - case["phase_gap"] / 2, ph))

    def reconf():
        for t, ph in bounds:
            if t > env.now:
                yield env.timeout(t - env.now)
            w.loss_rate = case["phases"][ph]
    env.process(reconf())
    err = net.run()
    if err:
        viol.append((err, "the run raised", net.errors[-1] if net.errors else err))
        return viol
    stats["loss_reconfigured_cases"] += 1
    delivered = {e[5] for e in net.tape.of("sink", "out")}
    for ph in (0, 1, 2):
        us = [u for u, p in phase_of.items() if p == ph]
        got = sum(1 for u in us if u in delivered)
        rate = case["phases"][ph]
        want = 0 if rate == 1 else len(us)
        if got != want:
            viol.append(("loss-rate-change-ignored", "after wire.loss_rate was changed between two quiet phases the wire did not follow the new rate",
                         {"phase": ph, "rate": rate, "entered": len(us), "delivered": got, "phases": case["phases"]}))
            break
    return viol


KEYS = ("big_clock_cases", "loss_reconfigured_cases", "loss_seed_comparisons", "deliveries_checked", "held_back_by_predecessor", "arrived_during_propagation", "loss_all_cases",
        "loss_none_cases", "loss_stat_packets", "cable_cases", "receivers_returning_pending_events", "same_object_cases", "same_object_reentries", "negative_clock_cases", "huge_int_clock_cases", "binomial_tail_checks")


def gen_same_object(rng):
    flavour = "exact"
    n = rng.randint(3, 30)
    pool = [0, 0.25, 0.5, 1, 2, 3, 4.5]
    ts, t = [], 0
    for _ in range(n):
        t += rng.choice([0, 0, 0.25, 0.5, 1, 1, 2, 5])
        ts.append(t)
    return {"kind": "same-object", "flavour": flavour, "times": ts, "again": [k > 0 and rng.random() < 0.4 for k in range(n)],
            "delays": [rng.choice(pool) for _ in range(n + 2)] if rng.random() < 0.5 else [rng.choice(pool)] * (n + 2)}


def run_same_object(case, stats):
    """one Packet object handed to the wire again while an earlier pass is still propagating (a retransmission of
    the stored instance, a hub repeating one object): every pass is a packet in its own right"""
    from onl.netdev import Wire
    viol = []
    net = vnet.Net(0)
    env = net.env
    delay = vnet.Script(case["delays"], net, "delay")
    w = Wire(env, delay, None)
    got = []

    class Rx:
        def put(self, p):
            got.append((env.now, id(p)))
    w.out = Rx()
    entered, keep = [], []

    def src():
        last, p = 0, None
        for k, t in enumerate(case["times"]):
            if t > last:
                yield env.timeout(t - last)
                last = t
            if not (case["again"][k] and p is not None):
                p = net.make_packet(0, 100, k)
                keep.append(p)
            else:
                stats["same_object_reentries"] += 1
            entered.append((env.now, id(p)))
            w.put(p)
    env.process(src())
    err = net.run()
    if err:
        return [(err, "the run raised", net.errors[-1] if net.errors else err)]
    stats["same_object_cases"] += 1
    if len(got) != len(entered):
        return [("lost-without-loss-rate", "a wire without loss rate did not deliver every packet exactly once",
                 {"entered": len(entered), "delivered": len(got)})]
    Dprev = None
    for k, ((a, u), (D, v)) in enumerate(zip(entered, got)):
        d = delay.draws[k][2]
        want = a + d if Dprev is None else max(a + d, Dprev)
        stats["deliveries_checked"] += 1
        if v != u:
            viol.append(("reordered", "the wire delivered packets out of entry order", {"k": k}))
            break
        if D != want:
            viol.append(("delivered-before-a-plus-d" if D < a + d else "held-longer-than-needed" if D > want else "delivery-time-wrong",
                         "delivery time != max(a + d, delivery of the previous packet)",
                         {"k": k, "a": a, "d": d, "prev": Dprev, "expected": want, "got": D, "same_object_as_previous": case["again"][k]}))
            break
        Dprev = D
    return viol


def one_case(ctx, case):
    import collections
    stats = collections.Counter({k: 0 for k in KEYS})
    viol = run_same_object(case, stats) if case["kind"] == "same-object" else run_case(case, stats)
    for k in KEYS:
        ctx.count(k, stats[k])
    ctx.count(case["flavour"] + "_cases")
    return viol, stats["held_back_by_predecessor"] >= 1 and stats["arrived_during_propagation"] >= 1


def slim(case):
    if case.get("stat"):
        c = dict(case)
        c["arrivals"] = c["arrivals"][:5] + [{"note": f"... {len(case['arrivals'])} arrivals, regenerate from seed"}]
        return c
    return case


def many_in_flight_case(ctx):
    """more than 65536 packets inside one wire at once (a long fat pipe): one per tick, constant delay far above the
    number of packets; every one is delivered at exactly a + d"""
    from onl.netdev import Wire
    net = vnet.Net(0)
    env = net.env
    n, d = 70000, 100000
    w = Wire(env, lambda: d, None)
    got = []

    class Rx:
        def put(self, p):
            got.append((env.now, p.packet_id))
    w.out = Rx()
    keep = []

    def src():
        for k in range(n):
            yield env.timeout(1)
            p = net.make_packet(0, 100, k)
            keep.append(p)
            w.put(p)
    env.process(src())
    case = {"probe": "many_in_flight", "n": n, "delay": d}
    err = net.run(cap=10 ** 7)
    ctx.count("many_in_flight_cases")
    if err:
        ctx.violation(err + "[wire]", "the run raised", net.errors[-1] if net.errors else err, case)
        return
    bad = [(k, t) for k, (t, pid) in enumerate(got) if pid != k or t != k + 1 + d]
    if len(got) != n or bad:
        ctx.violation("held-longer-than-needed[wire][more than 65536 packets in flight]" if bad and bad[0][1] > bad[0][0] + 1 + d else "lost-without-loss-rate[wire][more than 65536 packets in flight]",
                      "with tens of thousands of packets inside the wire at once a packet was not delivered at a + d",
                      {"delivered": len(got), "first_wrong": bad[:2]}, case)


def run_shard(ctx):
    if ctx.shard == 1 or (ctx.tier == "thorough" and ctx.shard % 4 == 1):
        many_in_flight_case(ctx)
    for i in ctx.cases(ncases(ctx.tier)):
        case = gen_case(ctx.rng(i), i)
        viol, nt = one_case(ctx, case)
        rec = {"regen": [ctx.seed, ctx.shard, i]} if case.get("stat") else case
        for m, what, wit in viol:
            ctx.violation(m + f"[{case['kind']}]", what, wit, rec)
        ctx.case_done(slim(case), nt)


def replay(ctx, case):
    if "regen" in case:
        seed, shard, i = case["regen"]
        r = random.Random(f"{PID}:{seed}:{shard}:{i}")
        case = gen_case(r, i)
    viol, _ = one_case(ctx, case)
    for m, what, wit in viol:
        ctx.violation(m + f"[{case['kind']}]", what, wit, case)
