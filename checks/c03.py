"""C03 -- runs are reproducible and unaffected by where they are stopped and resumed.

(a) determinism: each sampled program is executed twice in-process and in fresh interpreter
    processes under several PYTHONHASHSEED values; canonical tapes are compared by SHA-256.
(b) split plans: the uninterrupted tape T of a program is recorded; the program is re-executed
    under a random plan of run(until=number) / run(until=event) / step() calls.  After each
    numeric stop: now == t bit-exactly and the tape so far is exactly the entries of T with
    time < t.  After run(until=E): the returned value is E's value and the tape so far ends
    with the complete step in which E was processed.  At the end the tapes are equal.
(c) run(until=t<=now) is refused with ValueError and changes nothing.
Network scenarios (pipelines of ports, wires, schedulers) are covered by vlib.netscen digests.
"""
import hashlib
import json
import os
import subprocess

from vlib import common, kern, speckernel

PID = "C03"
LEVEL = "exploration"
ANCHORS = ["onl/sim/core.py", "onl/sim/events.py"]
RULE = ("random kernel programs (as C01/C02/C04/C05, all features) x random split plans of 1-6 elements "
        "(numeric stops at due instants / midpoints / awkward decimals, stop events = shared events and "
        "processes incl. ones that get their waiters after the run() call, bursts of step()); plus digests of "
        "kernel programs and network scenarios across fresh interpreters and PYTHONHASHSEED values; "
        "non-trivial = the plan had a numeric stop coinciding with a due occurrence or an until-event whose "
        "waiter registered after the call, and at least 2 effective stops; distinct by (program, plan) hash")
ASSUMPTIONS = ["run(until=E) for an E that fails raises E's exception; this is accepted as 'the return' "
               "(the property is silent) and matched against the uninterrupted tape's escape if nobody handled E",
               "PYTHONHASHSEED values are sampled, not enumerated"]
FLOORS = {"quick": {"plans": 2000, "numeric_stops": 2000, "stops_coinciding": 500, "until_event_calls": 1000,
                    "until_event_late_waiter": 50, "step_calls": 1000, "refused_until": 100,
                    "hashseed_digests_compared": 600, "inprocess_reruns": 2000, "net_digests_compared": 60, "net_split_plans": 400},
          "thorough": {"plans": 40000, "numeric_stops": 40000, "stops_coinciding": 10000,
                       "until_event_calls": 20000, "until_event_late_waiter": 1000, "step_calls": 20000,
                       "refused_until": 2000, "hashseed_digests_compared": 10000, "inprocess_reruns": 40000,
                       "net_digests_compared": 300, "net_split_plans": 10000}}
# floors for the situations added with the later rounds of seeded changes (evidence that they were really exercised)
FLOORS["quick"].update({'inf_stop_probes': 2})
FLOORS["thorough"].update({'inf_stop_probes': 2})
FLOORS["quick"].update({'net_split_plans_with_monitor': 25, 'stop_instants_of_other_numeric_type': 800})
FLOORS["thorough"].update({'net_split_plans_with_monitor': 125, 'stop_instants_of_other_numeric_type': 4000})
FLOORS["quick"].update({'post_escape_full_comparisons': 2000})
FLOORS["thorough"].update({'post_escape_full_comparisons': 10000})
PROFILE = {"weights": {"timeout": 5, "zero": 1, "wait": 3, "succeed": 2.5, "fail": 0.6, "spawn": 1.5, "join": 2,
                       "interrupt": 1.5, "cb": 0.7, "cond": 1.5, "chain": 0.3, "cbint": 0.2},
           "max_top": 5, "max_child_scripts": 3, "min_ev": 1, "max_ev": 3, "p_exact": 0.6, "p_raise": 0.08,
           "p_catch": 0.8, "t0": [0, 0, 0, 5, 2.5]}


def plan(tier):
    return {"shards": 4, "timeout": 600} if tier == "quick" else {"shards": 16, "timeout": 3400}


def ncases(tier):
    return 6000 if tier == "quick" else 40000


def gen_plan(rng, T, nprocs, nev, t0):
    times = sorted({e[0] for e in T if e[0] is not None})
    elems = []
    for _ in range(rng.randint(1, 6)):
        r = rng.random()
        if r < 0.45 and times:
            t = rng.choice(times)
            q = rng.random()
            if q < 0.55:
                pass
            elif q < 0.75:
                t = t + 0.5
            elif q < 0.9:
                t = round(t + rng.choice([0.07, 0.31, 0.49, 1.13]), 2)
            else:
                t = t - rng.choice([0, 0.25])           # often <= now: must be refused
            # the stop instant may be any real number type: int, float, Fraction, Decimal (same instant, same meaning)
            elems.append(["num", t] + ([rng.choice(["frac", "dec"])] if rng.random() < 0.2 else []))
        elif r < 0.8:
            if rng.random() < 0.5 and nev:
                elems.append(["ev", f"E{rng.randrange(nev)}"])
            else:
                elems.append(["ev", f"P{rng.randrange(max(1, nprocs))}"])
        else:
            elems.append(["steps", rng.randint(1, 12)])
    if rng.random() < 0.06:
        elems.append(["num", float("inf")])          # a legal stop instant: everything finite is due strictly before it
    return elems


def strip_end(tape):
    return [e for e in tape if e[1] != "run-end"]


def run_split(ctx, prog, plan_, T, Tsteps, K, stats):
    """execute prog under plan_ on kernel K; returns (violations, effective stops).

    The comparison covers the run up to and including its first escaping failure: what a
    simulation does after run() raised is outside the property (the uninterrupted run has
    ended there)."""
    viol = []
    # the C02 ledger rides along: "a failed event that no waiter handles makes run()/step() raise" holds for every
    # call form and also after an earlier call was aborted (only failure-lost / escape-mismatch are taken from it)
    mon = kern.Monitor(agenda=False, waiters=True, interrupts=False)
    r = kern.Runner(K, prog, mon=mon)
    r.start()
    env = r.env
    Tn = strip_end(T)
    for i, e in enumerate(Tn):
        if e[1] == "escape":
            Tn = Tn[:i + 1]
            break
    state = {"ended": False}

    def prefix_ok(k, why, extra=None):
        S = strip_end(r.tape)
        if len(S) != k or S != Tn[:k]:
            i = kern.first_diff(S, Tn[:k])
            viol.append((why, "the tape of the split run is not the expected prefix of the uninterrupted tape",
                         {"expected_len": k, "got_len": len(S), "first_diff": i,
                          "split": S[i] if i is not None and i < len(S) else None,
                          "whole": Tn[i] if i is not None and i < len(Tn) else None, "info": extra}))
            return False
        return True

    def tape_escape(exc, until_event=None):
        # an unhandled failure of the program escaping from a call made AFTER the first escape: on the tape like in
        # the uninterrupted run (the until-event's own, handled, failure raised by run(until=E) is not one)
        if until_event is not None and until_event.callbacks is not None and type(exc) is RuntimeError \
                and env.peek() == float("inf") and "until" in str(exc):
            return                           # the kernel's own "no scheduled events left but until-event not triggered"
        own = until_event is not None and until_event.callbacks is None and until_event._ok is False and \
            type(exc) is type(until_event._value) and exc.args == until_event._value.args
        if not own or mon.pending_escape is not None:
            r.tape.append((env.now, "escape", kern.canon_exc(exc)))
        elif mon.maybe_escape_step == env.steps:
            state["post_ambiguous"] = True       # the until-event is a condition operand: handled or not, the boundary cannot tell

    def note_raise(exc):
        if mon.pending_escape is not None:
            mon.escaped(exc)

    def lost_failures(viol, tag=""):
        for m, what, wit in mon.viol:
            if m in ("failure-lost", "escape-mismatch"):
                viol.append((m + "[split-run]" + tag, what, wit))
        if mon.pending_escape is not None and mon.pending_escape[3] <= env.steps and not any(v[0].startswith("failure-lost") for v in viol):
            viol.append(("failure-lost[split-run]" + tag, "an unhandled failed event did not make the run()/step() call in progress raise",
                         {"event": mon.pending_escape[0]}))

    def log_escape(exc):
        note_raise(exc)
        r.escapes.append((env.now, env.steps, exc))
        r.tape.append((env.now, "escape", kern.canon_exc(exc)))
        state["ended"] = True

    effective = 0
    for el in plan_:
        if env.peek() == float("inf") or state["ended"] or viol:
            break
        if el[0] == "num":
            t = el[1]
            targ = t
            if len(el) > 2 and t != float("inf"):
                from decimal import Decimal
                from fractions import Fraction
                targ = Fraction(t) if el[2] == "frac" else Decimal(repr(t))
                if float(targ) != t:
                    targ = t
                else:
                    stats["stop_instants_of_other_numeric_type"] += 1
            if t <= env.now:
                stats["refused_until"] += 1
                n0, now0, peek0 = len(r.tape), env.now, env.peek()
                res = r.run_call(until=targ)
                if res[0] == "raise" and isinstance(res[1], ValueError) and env.peek() != peek0:
                    viol.append(("refused-until-had-effect", "a refused run(until=t<=now) left something behind on the agenda",
                                 {"t": t, "now": now0, "peek_before": peek0, "peek_after": env.peek()}))
                if not (res[0] == "raise" and isinstance(res[1], ValueError)):
                    viol.append(("until-not-after-now-accepted", "run(until=t) with t <= now was not refused with ValueError",
                                 {"t": t, "now": now0, "result": repr(res)}))
                elif len(r.tape) != n0 or env.now != now0:
                    viol.append(("refused-until-had-effect", "a refused run(until=t<=now) changed the simulation", {"t": t}))
                continue
            res = r.run_call(until=targ)
            if res[0] == "raise":
                log_escape(res[1])
            elif res[0] == "ret":
                stats["numeric_stops"] += 1
                effective += 1
                if any(e[0] == t for e in Tn):
                    stats["stops_coinciding"] += 1
                if env.now != t:
                    viol.append(("run-until-returned-at-wrong-time", "run(until=t) returned with now != t",
                                 {"t": t, "now": env.now}))
                k = sum(1 for e in Tn if e[0] < t)
                prefix_ok(k, "numeric-stop-not-transparent", {"t": t})
        elif el[0] == "ev":
            lab = el[1]
            if lab[0] == "E":
                E = r.shared[int(lab[1:])]
            else:
                pid = int(lab[1:])
                if pid >= len(r.procs) or r.procs[pid] is None:
                    continue
                E = r.procs[pid]
            stats["until_event_calls"] += 1
            was_processed = E.callbacks is None
            n0 = len(r.tape)
            res = r.run_call(until=E)
            if was_processed:
                if E._ok and not (res[0] == "ret" and res[1] is E._value):
                    viol.append(("until-processed-event-wrong-value", "run(until=processed event) did not return its value at once", lab))
                if len(r.tape) != n0:
                    viol.append(("until-processed-event-ran", "run(until=processed event) executed something", lab))
                continue
            if res[0] == "cap":
                break
            if E.callbacks is not None:
                if res[0] == "raise" and isinstance(res[1], RuntimeError) and env.peek() == float("inf"):
                    state["ended"] = True        # never processed: the agenda drained -- accepted
                elif res[0] == "raise":
                    log_escape(res[1])           # an unrelated unhandled failure ended the run
                else:
                    viol.append(("until-event-returned-early", "run(until=E) returned although E has not been processed",
                                 {"event": lab, "result": repr(res)[:200]}))
                continue
            effective += 1
            if any(e[1] == "yield" and e[4] == lab and not e[5] for e in r.tape[n0:]):
                stats["until_event_late_waiter"] += 1
            if E._ok:
                if not (res[0] == "ret" and res[1] is E._value):
                    viol.append(("until-event-wrong-value", "run(until=E) did not return E's value",
                                 {"event": lab, "result": repr(res)[:200]}))
            else:
                exc = res[1] if res[0] == "raise" else None
                if exc is not None:
                    note_raise(exc)
                if exc is None or type(exc) is not type(E._value) or exc.args != E._value.args:
                    viol.append(("until-failed-event-wrong-exception", "run(until=E) for a failed E did not raise E's exception",
                                 {"event": lab, "result": repr(res)[:200]}))
            # the tape so far must end with the complete processing step of E
            k_expected = None
            for i, e in enumerate(Tn):
                if e[1] == "probe" and e[2] == lab:
                    sE = Tsteps[i]
                    end = i
                    while end + 1 < len(Tn) and Tsteps[end + 1] == sE and Tn[end + 1][1] != "escape":
                        end += 1
                    k_expected = end + 1
                    break
            if k_expected is None:
                viol.append(("until-event-not-in-whole-run", "E was processed in the split run but never in the uninterrupted run", lab))
                continue
            if not E._ok and k_expected < len(Tn) and Tn[k_expected][1] == "escape" \
                    and Tn[k_expected][2] == kern.canon_exc(E._value):
                # nobody handled E: the exception run(until=E) raised *is* the escape of the whole run
                log_escape(E._value)
                k_expected += 1
            prefix_ok(k_expected, "until-event-stop-not-transparent", {"event": lab})
        else:
            for _ in range(el[1]):
                stats["step_calls"] += 1
                try:
                    env.step()
                except K.EmptySchedule:
                    break
                except (Exception, kern.Crit) as exc:
                    log_escape(exc)
                    break
            S = strip_end(r.tape)
            if S != Tn[:len(S)]:
                prefix_ok(len(S), "step-calls-not-transparent")
    if not viol and state["ended"]:
        # The trace comparison ends at the first escaping failure, but the *postconditions of each call*
        # hold whatever happened before: run(until=t) that returns has now == t, run(until=E) that
        # returns has processed E and returns its value, step() raises nothing but EmptySchedule or a
        # failure of the program.
        prog_excs = tuple(kern.EXC.values())
        done = plan_.index(el) + 1 if plan_ else 0
        for el2 in plan_[done:] + [["num", env.now + 1.5], ["steps", 3], ["num", env.now + 4.25]]:
            if env.peek() == float("inf") or viol:
                break
            stats["post_escape_calls"] += 1
            if el2[0] == "num":
                if not (el2[1] > env.now):
                    continue
                res = r.run_call(until=el2[1])
                if res[0] == "raise":
                    tape_escape(res[1])
                    note_raise(res[1])
                if res[0] == "ret" and env.now != el2[1]:
                    viol.append(("run-until-returned-at-wrong-time[after-an-escape]", "run(until=t) returned with now != t",
                                 {"t": el2[1], "now": env.now}))
                elif res[0] == "raise" and not isinstance(res[1], prog_excs):
                    viol.append(("unexpected-exception-from-run[after-an-escape]", "run(until=t) raised something that is not a failure of the program",
                                 repr(res[1])[:200]))
            elif el2[0] == "ev":
                lab = el2[1]
                E = r.shared[int(lab[1:])] if lab[0] == "E" else (r.procs[int(lab[1:])] if int(lab[1:]) < len(r.procs) else None)
                if E is None or E.callbacks is None:
                    continue
                res = r.run_call(until=E)
                if res[0] == "raise":
                    tape_escape(res[1], E)
                    note_raise(res[1])
                if res[0] == "ret" and (E.callbacks is not None or res[1] is not E._value):
                    viol.append(("until-event-returned-early[after-an-escape]", "run(until=E) returned although E has not been processed (or not E's value)",
                                 {"event": lab, "result": repr(res)[:200]}))
                elif res[0] == "raise" and not isinstance(res[1], prog_excs + (RuntimeError,)):
                    viol.append(("unexpected-exception-from-run[after-an-escape]", "run(until=E) raised something that is not a failure of the program",
                                 repr(res[1])[:200]))
            else:
                for _ in range(el2[1]):
                    try:
                        env.step()
                    except K.EmptySchedule:
                        break
                    except prog_excs as exc:
                        tape_escape(exc)
                        note_raise(exc)
                    except BaseException as exc:
                        viol.append(("unexpected-exception-from-step[after-an-escape]", "step() raised something that is neither EmptySchedule nor a failure of the program",
                                     repr(exc)[:200]))
                        break
        lost_failures(viol, "[after-an-escape]")
        if not viol and T and T[-1][1] == "run-end" and T[-1][2] == "ret" and not state.get("post_ambiguous"):
            # The uninterrupted reference went on with run() after every escaping failure until the agenda was exhausted.
            # So does the split run now: nothing that is still scheduled may be lost, duplicated or reordered by the
            # aborted call (an aborted run(until=t) leaves its stop marker behind; it must be harmless).
            for _ in range(kern.Runner.MAX_ESCAPES + 2):
                res = r.run_call()
                if res[0] == "raise":
                    tape_escape(res[1])
                    note_raise(res[1])
                    continue
                if res[0] == "ret" and env.peek() != float("inf"):
                    continue
                break
            skip = ("run-end", "run-returned-with-agenda-nonempty")
            S = [e for e in r.tape if e[1] not in skip]
            W = [e for e in T if e[1] not in skip]
            stats["post_escape_full_comparisons"] += 1
            if S != W:
                i = kern.first_diff(S, W)
                viol.append(("split-run-differs-from-whole-run[after-an-escape]",
                             "after a call was aborted by an escaping failure and the run was continued, the remaining trace differs from the uninterrupted run (lost, duplicated or reordered)",
                             {"first_diff": i, "split": S[i] if i is not None and i < len(S) else None,
                              "whole": W[i] if i is not None and i < len(W) else None, "plan": plan_}))
        return viol, effective
    if not viol:
        if not state["ended"]:
            res = r.run_call()
            if res[0] == "raise":
                log_escape(res[1])
        S = strip_end(r.tape)
        if S != Tn:
            i = kern.first_diff(S, Tn)
            viol.append(("split-run-differs-from-whole-run",
                         "the concatenated tape of the split run differs from the uninterrupted run (lost, duplicated or reordered)",
                         {"first_diff": i, "split": S[i] if i is not None and i < len(S) else None,
                          "whole": Tn[i] if i is not None and i < len(Tn) else None, "plan": plan_}))
    if not viol:
        lost_failures(viol)
    return viol, effective


def digest(tape):
    return hashlib.sha256(json.dumps(common.canon(list(tape)), sort_keys=True).encode()).hexdigest()


def one_case(ctx, prog, plan_, stats):
    K = kern.RealK.load()
    whole = kern.run_on(K, prog)
    T, Tsteps = list(whole.tape), list(whole.tape.steps)
    viol = []
    if T[-1][2] == "cap":
        stats["skipped_many_escapes"] += 1
        return viol, 0, T
    # (a) in-process re-run
    again = kern.run_on(K, prog)
    stats["inprocess_reruns"] += 1
    if list(again.tape) != T:
        viol.append(("rerun-differs", "two executions of the same program in one interpreter produced different traces",
                     {"first_diff": kern.first_diff(list(again.tape), T)}))
    v, eff = run_split(ctx, prog, plan_, T, Tsteps, K, stats)
    viol += v
    stats["plans"] += 1
    return viol, eff, T


def net_split_part(ctx, n):
    """network pipelines under random split plans: the sink trace must equal the uninterrupted one"""
    import random as _r
    from vlib import netscen
    kinds = ("wfq-str", "drr-str", "sp", "port-wire-loss", "red", "hub", "switch", "sched-monitor", "sched-monitor")
    for i in range(n):
        key = f"C03-netsplit:{ctx.seed}:{ctx.shard}:{i}"
        name, whole = netscen.scenario(_r.Random(key), None, kinds)
        times = sorted({e[0] for e in whole if isinstance(e[0], (int, float))})
        rng = ctx.rng("netsplit", i)
        stops = []
        for _ in range(rng.randint(1, 5)):
            if rng.random() < 0.7 and times:
                t = rng.choice(times)
                stops.append(["num", t if rng.random() < 0.6 else round(t + rng.choice([0.013, 0.37, 1.01]), 3)])
            else:
                stops.append(["steps", rng.randint(1, 40)])
        nums = sorted(x[1] for x in stops if x[0] == "num")
        it = iter(nums)
        stops = [["num", next(it)] if x[0] == "num" else x for x in stops]
        if name == "sched-monitor":
            # a phase of single steps after the traffic has ended, while only the monitor is still active
            stops.append(["num", times[-1] + 0.25] if times else ["steps", 3])
            stops.append(["steps", rng.randint(5, 60)])
            ctx.count("net_split_plans_with_monitor")
        name2, split = netscen.scenario(_r.Random(key), stops, kinds)
        ctx.count("net_split_plans")
        if split != whole:
            j = kern.first_diff(split, whole)
            ctx.violation(f"network-run-not-transparent-to-stops[{name}]",
                          "splitting a network simulation by run(until=t)/step() calls changed what the sink observed",
                          {"scenario": name, "stops": stops, "first_diff": j,
                           "split": split[j] if j is not None and j < len(split) else None,
                           "whole": whole[j] if j is not None and j < len(whole) else None},
                          {"netsplit_case": [ctx.seed, ctx.shard, i]})


def hashseed_part(ctx, n, seeds):
    """digests of kernel programs and network scenarios in fresh interpreters"""
    outs = {}
    for hs in seeds:
        env = dict(os.environ, PYTHONHASHSEED=str(hs), PYTHONPATH=common.VERIF, VERIF_REPO=common.REPO,
                   PYTHONDONTWRITEBYTECODE="1")
        p = subprocess.run([common.PY, "-m", "vlib.digest", str(ctx.seed), str(ctx.shard), str(n)],
                           cwd=common.VERIF, env=env, capture_output=True, text=True, timeout=900)
        if p.returncode != 0:
            raise RuntimeError("digest subprocess failed: " + p.stderr[-800:])
        outs[hs] = json.loads(p.stdout.strip().splitlines()[-1])
    base = outs[seeds[0]]
    for hs in seeds[1:]:
        o = outs[hs]
        for kind in ("kernel", "net"):
            for i, (a, b) in enumerate(zip(base[kind], o[kind])):
                ctx.count("hashseed_digests_compared" if kind == "kernel" else "net_digests_compared")
                if a != b:
                    ctx.violation(f"trace-depends-on-interpreter-or-hash-seed[{kind}]",
                                  "the same program produced different traces in two interpreter processes / under two PYTHONHASHSEED values",
                                  {"kind": kind, "index": i, "hashseeds": [seeds[0], hs], "names": base.get(kind + "_names", [None] * (i + 1))[i]},
                                  {"digest_case": [ctx.seed, ctx.shard, kind, i]})
    ctx.count("hashseeds_used", len(seeds))


def inf_stop_probe(ctx):
    """run(until=inf): inf is a number like any other -- everything finite is due strictly before it and takes effect,
    what is due at inf itself does not, now == inf afterwards and any later numeric stop is refused"""
    K = kern.RealK.load()
    INF = float("inf")
    for t0 in (0, 2.5):
        ctx.count("inf_stop_probes")
        env = K.Environment(t0)
        log = []

        def waiter(env, d, tag):
            yield env.timeout(d)
            log.append((tag, env.now))
        env.process(waiter(env, 1, "a"))
        env.process(waiter(env, 3, "b"))
        env.process(waiter(env, INF, "parked"))
        case = {"probe": "inf_stop", "t0": t0}
        try:
            env.run(until=INF)
        except BaseException as e:
            ctx.violation("run-until-inf-raised", "run(until=inf) raised", repr(e), case)
            continue
        if env.now != INF:
            ctx.violation("run-until-returned-at-wrong-time[inf]", "run(until=t) returned with now != t for t = inf",
                          {"now": env.now}, case)
        if log != [("a", t0 + 1), ("b", t0 + 3)]:
            ctx.violation("numeric-stop-not-transparent[inf]", "after run(until=inf) not exactly the occurrences due strictly before inf had taken effect",
                          {"log": log}, case)
        try:
            env.run(until=10 ** 9)
            ctx.violation("until-not-after-now-accepted[inf]", "run(until=t) with t <= now (= inf) was not refused with ValueError", None, case)
        except ValueError:
            pass
        except BaseException as e:
            ctx.violation("until-not-after-now-accepted[inf]", "run(until=t) with t <= now (= inf) raised something else", repr(e), case)


def run_shard(ctx):
    if ctx.shard == 0:
        inf_stop_probe(ctx)
    stats = {k: 0 for k in ("plans", "numeric_stops", "stops_coinciding", "until_event_calls",
                            "until_event_late_waiter", "step_calls", "refused_until", "inprocess_reruns", "skipped_many_escapes", "post_escape_calls", "stop_instants_of_other_numeric_type", "post_escape_full_comparisons")}
    for i in ctx.cases(ncases(ctx.tier)):
        rng = ctx.rng(i)
        prog = kern.gen_program(rng, PROFILE)
        pre = kern.run_on(speckernel.K, prog)
        plan_ = gen_plan(rng, list(pre.tape), len(pre.procs), prog["nev"], prog["t0"])
        case = {"program": prog, "plan": plan_}
        c0, l0 = stats["stops_coinciding"], stats["until_event_late_waiter"]
        viol, eff, T = one_case(ctx, prog, plan_, stats)
        for m, what, wit in viol:
            ctx.violation(m, what, wit, case)
        nt = eff >= 2 and (stats["stops_coinciding"] > c0 or stats["until_event_late_waiter"] > l0)
        ctx.case_done(case, nt)
    for k, v in stats.items():
        ctx.count(k, v)
    net_split_part(ctx, 150 if ctx.tier == "quick" else 1500)
    if ctx.tier == "quick":
        hashseed_part(ctx, 100, [0, 1, 4242])
    else:
        hashseed_part(ctx, 250, [0, 1, 2, 7, 4242])


def replay(ctx, case):
    if "digest_case" in case:
        return hashseed_part(ctx, 100, [0, 1, 4242])
    if "netsplit_case" in case:
        return net_split_part(ctx, 150)
    stats = {k: 0 for k in ("plans", "numeric_stops", "stops_coinciding", "until_event_calls",
                            "until_event_late_waiter", "step_calls", "refused_until", "inprocess_reruns", "skipped_many_escapes", "post_escape_calls", "stop_instants_of_other_numeric_type", "post_escape_full_comparisons")}
    viol, _, _ = one_case(ctx, case["program"], case["plan"], stats)
    for m, what, wit in viol:
        ctx.violation(m, what, wit, case)
