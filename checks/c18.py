"""C18 -- demuxes, switches, hubs, splitters and fat-tree FIBs deliver to the right place.

Oracles: routing recomputed from (ends, fib, outs, default_out) incl. empty table, unknown flow,
out-of-range port -- exactly one output receives the very same object; hub and splitter identity
rules; FatTree(k) structural invariants via networkx; hop-by-hop FIB walk along the recorded path
(and the +10000 class back); end-to-end simulated fat tree of FairPacketSwitch nodes (every
scheduler type, identity-like and many-to-one class maps) with a tap on every node: every packet
is seen exactly at the nodes of its flow's path, in order, and arrives at its own sink only.
"""
import random

from vlib import net as vnet

PID = "C18"
LEVEL = "exploration"
ANCHORS = ["onl/netdev/demux.py", "onl/netdev/switch.py", "onl/netdev/hub.py", "onl/netdev/splitter.py",
           "onl/topo/fattree.py", "onl/flow/flow.py"]
RULE = ("random tables / output lists / end maps (some end devices falsy while empty) / flow ids for FlowDemux, FIBDemux, SimplePacketSwitch, FairPacketSwitch; "
        "random hub populations with and without port devices; Splitter / NSplitter with 2-5 outputs; FatTree(k) for even k "
        "(2,4,6,8 quick; up to 12 thorough) with 1-60 random flows (any seed), with and without reverse TCP entries; "
        "end-to-end fat trees (k in {2,4}) for SP/WFQ/DRR/VirtualClock with flows sharing classes; non-trivial = the case "
        "exercised a fallback (default output / unknown flow / out-of-range port / empty table) or routed >= 3 flows over a "
        "shared switch; distinct by case hash")
ASSUMPTIONS = ["output lists are non-empty and port numbers non-negative; flow ids are non-negative integers",
               "a Splitter copy's *scalar* header fields are independent; shared mutable annotation dicts are not counted as header fields",
               "in the simulated fat tree buffers are large enough that no tail drop occurs (drops are C09's subject)"]
FLOORS = {"quick": {"demux_packets": 8000, "fib_empty_table_cases": 150, "default_out_used": 3000, "nowhere": 2000,
                    "out_of_range_port": 600, "ends_used": 800, "switch_packets": 5000, "hub_packets": 1500,
                    "hub_with_ports": 200, "hub_without_ports": 200, "splitter_packets": 800, "fattree_built": 300,
                    "fib_walks": 8000, "reverse_walks": 2000, "e2e_packets": 8000, "e2e_hops": 50000,
                    "e2e_shared_class_runs": 100, "e2e_SP": 30, "e2e_WFQ": 30, "e2e_DRR": 30, "e2e_VirtualClock": 30},
          "thorough": {"demux_packets": 150000, "fib_empty_table_cases": 3000, "default_out_used": 60000, "nowhere": 40000,
                       "out_of_range_port": 12000, "ends_used": 16000, "switch_packets": 100000, "hub_packets": 30000,
                       "hub_with_ports": 4000, "hub_without_ports": 4000, "splitter_packets": 16000, "fattree_built": 6000,
                       "fib_walks": 160000, "reverse_walks": 40000, "e2e_packets": 160000, "e2e_hops": 1000000,
                       "e2e_shared_class_runs": 2000, "e2e_SP": 600, "e2e_WFQ": 600, "e2e_DRR": 600, "e2e_VirtualClock": 600}}
KEYS = tuple(FLOORS["quick"].keys()) + ("demux_reconfigurations", "splitter_rewriting_receivers", "fattree_twin_trees", "fib_tables_with_default_route", "hub_synchronous_answers", "hub_endpoints_renamed_after_attach", "fattree_flow_dicts_rekeyed", "hub_ports_prewired", "end_device_falsy_when_used")
# floors for the situations added with the later rounds of seeded changes (evidence that they were really exercised)
FLOORS["quick"].update({'fib_tables_with_default_route': 70, 'hub_synchronous_answers': 200})
FLOORS["thorough"].update({'fib_tables_with_default_route': 350, 'hub_synchronous_answers': 1000})
FLOORS["quick"].update({'hub_endpoints_renamed_after_attach': 80})
FLOORS["thorough"].update({'hub_endpoints_renamed_after_attach': 400})
FLOORS["quick"].update({'fattree_flow_dicts_rekeyed': 80, 'hub_ports_prewired': 100})
FLOORS["thorough"].update({'fattree_flow_dicts_rekeyed': 400, 'hub_ports_prewired': 500})
FLOORS["quick"].update({'end_device_falsy_when_used': 60})
FLOORS["thorough"].update({'end_device_falsy_when_used': 300})


def plan(tier):
    return {"shards": 4, "timeout": 900} if tier == "quick" else {"shards": 16, "timeout": 3400}


def ncases(tier):
    return 2500 if tier == "quick" else 25000


class Dev:
    """harness endpoint: has element_id, out, records what it gets"""

    def __init__(self, name):
        self.element_id = name
        self.out = None
        self.got = []

    def put(self, p):
        self.got.append(p)


class CountingDev(Dev):
    """an endpoint whose len() is the number of packets it holds: falsy while it is empty, like any container"""

    def __len__(self):
        return len(self.got)


def mkpkt(flow, src="s", pid=0, size=100):
    from onl.packet import Packet
    return Packet(0.0, size, pid, src=src, flow_id=flow, payload=("pl", pid))


class DefaultRoute(dict):
    """a forwarding table with a default route: table[f] answers for every flow"""
    port = 0

    def __missing__(self, f):
        return self.port


# ---------------------------------------------------------------------------
def demux_case(rng, stats, bad):
    from onl.netdev.demux import FlowDemux, FIBDemux
    n = rng.randint(1, 5)
    outs = [Dev(f"o{i}") for i in range(n)]
    default = Dev("default") if rng.random() < 0.6 else None
    nt = False
    if rng.random() < 0.4:
        d = FlowDemux(outs, default)
        for f in range(0, n + 3):
            p = mkpkt(f, pid=f)
            d.put(p)
            stats["demux_packets"] += 1
            want = outs[f] if f < n else default
            holders = [o for o in outs + ([default] if default else []) if any(x is p for x in o.got)]
            total = sum(len(o.got) for o in outs) + (len(default.got) if default else 0)
            if f >= n:
                nt = True
                stats["default_out_used" if default else "nowhere"] += 1
            if (want is None and holders) or (want is not None and holders != [want]):
                bad("flowdemux-wrong-output", "FlowDemux did not hand the packet to output f / the default output / nowhere",
                    {"flow": f, "nouts": n, "default": default is not None, "got": [h.element_id for h in holders]})
                return nt
        if d.packets_recevied != n + 3:
            bad("flowdemux-counter", "FlowDemux packet counter wrong", None)
        return nt
    ends = {f: (CountingDev if rng.random() < 0.3 else Dev)(f"end{f}") for f in rng.sample(range(8), rng.randint(0, 3))}
    fib = {}
    kind = rng.random()
    if kind < 0.2:
        fib = {}
        stats["fib_empty_table_cases"] += 1
        nt = True
    else:
        for f in rng.sample(range(8), rng.randint(1, 6)):
            fib[f] = rng.randrange(0, n + 2)          # may be out of range
    tbl = dict(fib)
    if fib and rng.random() < 0.2:
        # a table that answers table[f] for flows it does not list (a default route): "the output its forwarding
        # table names" is whatever table[f] yields
        tbl = DefaultRoute(fib)
        tbl.port = rng.randrange(0, n + 1)
        stats["fib_tables_with_default_route"] += 1
    d = FIBDemux(outs=outs, ends=dict(ends) if (ends or rng.random() < 0.5) else None, fib=tbl, default_out=default)
    ends = d.ends                      # the live, public map (reconfigured in place below)
    phases = rng.randint(1, 3)
    pid = 0
    for phase in range(phases):
        if phase > 0:
            # reconfigure the live demux through its public attributes, then route again
            stats["demux_reconfigurations"] += 1
            for _ in range(rng.randint(1, 4)):
                r = rng.random()
                f = rng.randrange(9)
                if r < 0.3:
                    ends[f] = (CountingDev if rng.random() < 0.3 else Dev)(f"end{f}.{phase}")
                elif r < 0.45 and ends:
                    del ends[rng.choice(sorted(ends))]
                elif r < 0.65:
                    tbl[f] = rng.randrange(0, n + 2)
                elif r < 0.75 and tbl:
                    del tbl[rng.choice(sorted(tbl))]
                elif r < 0.85:
                    tbl = {g: rng.randrange(0, n + 1) for g in rng.sample(range(9), rng.randint(0, 5))}
                    d.fib = tbl
                elif r < 0.93:
                    outs[rng.randrange(n)] = Dev(f"o.{phase}")
                else:
                    default = Dev(f"default.{phase}") if rng.random() < 0.7 else None
                    d.default_out = default
            fib = tbl
        else:
            fib = tbl
        devs = list(outs) + list(ends.values()) + ([default] if default else [])
        for f in range(0, 9):
            pid += 1
            p = mkpkt(f, pid=pid)
            before = {id(o): len(o.got) for o in devs}
            try:
                with vnet_quiet():
                    d.put(p)
            except Exception as e:
                bad(f"exception:{type(e).__name__}@FIBDemux.put" + ("[empty-table]" if not fib else ""), "FIBDemux.put raised",
                    {"flow": f, "fib": fib, "ends": sorted(ends), "exc": repr(e)[:100]})
                return nt
            stats["demux_packets"] += 1
            try:
                named = fib[f]
            except KeyError:
                named = None
            if f in ends:
                want = ends[f]
                stats["ends_used"] += 1
                if isinstance(want, CountingDev) and len(want.got) <= 1:
                    stats["end_device_falsy_when_used"] += 1
            elif named is not None and named < n:
                want = outs[named]
            else:
                want = default
                nt = True
                if named is not None:
                    stats["out_of_range_port"] += 1
                stats["default_out_used" if default else "nowhere"] += 1
            holders = [o for o in devs if len(o.got) > before[id(o)]]
            if any(o.got[-1] is not p for o in holders):
                bad("fibdemux-different-object", "FIBDemux forwarded something other than the very same packet", f)
                return nt
            if (want is None and holders) or (want is not None and holders != [want]):
                bad("fibdemux-wrong-output" + ("[after-reconfiguration]" if phase else ""),
                    "FIBDemux did not hand the packet to its end device / table output / default output",
                    {"flow": f, "fib": fib, "ends": sorted(ends), "nouts": n, "default": default is not None, "phase": phase,
                     "got": [h.element_id for h in holders], "want": want.element_id if want else None})
                return nt
    return nt


class vnet_quiet:
    def __enter__(self):
        import io
        import sys
        self.o = sys.stdout
        sys.stdout = io.StringIO()

    def __exit__(self, *a):
        import sys
        sys.stdout = self.o


def switch_case(rng, stats, bad):
    from onl.netdev import SimplePacketSwitch, FairPacketSwitch
    net = vnet.Net()
    env = net.env
    nports = rng.randint(1, 4)
    nflows = nports + 2
    if rng.random() < 0.4:
        sw = SimplePacketSwitch(env, nports, 8000.0, 100, element_id="sw")
        sinks = [net.recorder(f"p{i}") for i in range(nports)]
        for port, s in zip(sw.ports, sinks):
            port.out = s
        want_port = lambda f: f if f < nports else None
        name = "SimplePacketSwitch"
    else:
        server = rng.choice(["SP", "WFQ", "DRR", "VirtualClock"])
        weights = {f: rng.choice([1, 2, 3]) for f in range(nflows)}
        sw = FairPacketSwitch(env, nports, 8000.0, 100, weights, server, element_id="fsw")
        fib = {f: rng.randrange(nports) for f in range(nflows) if rng.random() < 0.8}
        sw.demux.fib = fib
        sinks = [net.recorder(f"p{i}") for i in range(nports)]
        for port, s in zip(sw.ports, sinks):
            port.out = s
        want_port = lambda f: fib.get(f)
        name = f"FairPacketSwitch[{server}]"
    arr = []
    t = 0
    for i in range(rng.randint(3, 25)):
        t += rng.choice([0, 0, 0.05, 0.2])
        arr.append({"t": t, "flow": rng.randrange(nflows), "size": 100, "pid": i})
    net.driver(sw, arr)
    with vnet_quiet():
        err = net.run()
    if err:
        bad(err + f"[{name}]", "the run raised", net.errors[-1] if net.errors else err)
        return False
    where = {}
    for i, s in enumerate(sinks):
        for (_, u, p) in s.got:
            where.setdefault(u, []).append(i)
    for u, p in enumerate(net.pk.objs):
        stats["switch_packets"] += 1
        w = want_port(p.flow_id)
        got = where.get(u, [])
        if (w is None and got) or (w is not None and got != [w]):
            bad(f"switch-wrong-output[{name.split('[')[0]}]", "a switch did not deliver a packet to exactly the output its table names",
                {"flow": p.flow_id, "want": w, "got": got, "switch": name})
            return False
    return True


def hub_case(rng, stats, bad):
    from onl.netdev import Hub, Wire
    net = vnet.Net()
    env = net.env
    n = rng.randint(1, 6)
    eps = [Dev(f"h{i}") for i in range(n)]
    with_ports = rng.random() < 0.5
    sent = []
    if not with_ports and rng.random() < 0.4:
        # endpoints that answer at once, from inside their own put() (as TCPSink does with its ACK): the reply enters the
        # hub while the hub is still repeating the packet that caused it
        for k in rng.sample(range(n), rng.randint(1, min(2, n))):
            eps[k] = Responder(f"h{k}", sent, stats)
    ports = []
    if with_ports:
        ports = [Wire(env, lambda: 0.5) if rng.random() < 0.7 else None for _ in range(n)]
        stats["hub_with_ports"] += 1
        for pt in ports:
            if pt is not None and rng.random() < 0.3:
                pt.out = Dev("wired-elsewhere-before")        # a port device reused from an earlier set-up
                stats["hub_ports_prewired"] += 1
    else:
        stats["hub_without_ports"] += 1
    try:
        hub = Hub(env, eps, ports) if with_ports else Hub(env, eps)
    except Exception as e:
        bad(f"exception:{type(e).__name__}@Hub.__init__[{'ports' if with_ports else 'no-ports'}]", "constructing a Hub raised", repr(e)[:100])
        return False
    for e in eps:
        if e.out is not hub:
            bad("hub-endpoint-not-attached", "an endpoint's out is not the hub", e.element_id)
            return False
    if rng.random() < 0.3:
        # the segment is wired first and the stations are named afterwards: the sender is whoever carries the id NOW
        for k in rng.sample(range(n), rng.randint(1, n)):
            eps[k].element_id = f"station-{k}"
        stats["hub_endpoints_renamed_after_attach"] += 1
    for i in range(rng.randint(1, 6)):
        src = rng.choice(eps + [Dev("stranger")])
        p = mkpkt(1, src=src.element_id, pid=i)
        hub.put(p)
        sent.append((p, src.element_id))
    net.run()
    for p, src in sent:
        stats["hub_packets"] += 1
        for e in eps:
            k = sum(1 for x in e.got if x is p)
            want = 0 if e.element_id == src else 1
            if k != want:
                bad("hub-wrong-recipients", "a Hub did not repeat a packet to every endpoint except its sender exactly once",
                    {"src": src, "endpoint": e.element_id, "copies": k, "with_ports": with_ports})
                return False
    if with_ports:
        for port, e in zip(ports, eps):
            if port is not None and port.packets_rec != sum(1 for p, s in sent if s != e.element_id):
                bad("hub-bypassed-port-device", "a Hub did not send through the endpoint's port device", e.element_id)
                return False
    return n >= 3


class Responder(Dev):
    """an endpoint that answers every packet that is not itself an answer with a packet of its own, synchronously"""

    def __init__(self, name, sent, stats):
        Dev.__init__(self, name)
        self.sent, self.stats, self.n = sent, stats, 0

    def put(self, p):
        self.got.append(p)
        if p.payload and p.payload[0] == "pl" and self.out is not None and self.n < 8:
            self.n += 1
            r = mkpkt(2, src=self.element_id, pid=1000 + self.n)
            r.payload = ("answer", self.n)
            self.sent.append((r, self.element_id))
            self.stats["hub_synchronous_answers"] += 1
            self.out.put(r)


class Rewriter(Dev):
    """a receiver that relabels what it gets, synchronously inside put() (e.g. a tagging tap)"""

    def __init__(self, name):
        Dev.__init__(self, name)
        self.seen = []

    def put(self, p):
        self.seen.append(tuple(getattr(p, f) for f in vnet.FIELDS))
        self.got.append(p)
        p.flow_id = 900 + len(self.got)
        p.size = 7
        p.src = self.element_id


def make_sink_rewriter(name):
    """the same rewriting receiver, but a subclass of the library's PacketSink (a monitoring tap that relabels what it records)"""
    from onl.packet import PacketSink
    from onl.sim import Environment

    class SinkRewriter(PacketSink, Rewriter):
        def __init__(self, name):
            PacketSink.__init__(self, Environment())
            Rewriter.__init__(self, name)

        def put(self, p):
            Rewriter.put(self, p)
    return SinkRewriter(name)


def splitter_case(rng, stats, bad):
    from onl.netdev import Splitter, NSplitter
    n = rng.randint(2, 5)
    outs = [Dev(f"o{i}") if rng.random() < 0.85 else None for i in range(n)]
    for i in range(1, n):
        if outs[i] is not None and rng.random() < 0.4:
            outs[i] = Rewriter(f"rw{i}") if rng.random() < 0.6 else make_sink_rewriter(f"rws{i}")
            stats["splitter_rewriting_receivers"] += 1
    if n == 2 and rng.random() < 0.5:
        sp = Splitter()
        sp.out1, sp.out2 = outs
    else:
        sp = NSplitter(n)
        for i, o in enumerate(outs):
            sp.outs[i] = o
    for i in range(4):
        p = mkpkt(rng.randrange(5), src="x", pid=i, size=rng.choice([100, 200]))
        p.time = 1.5 + i
        # fields set after construction by upstream elements (sink ACKs, meters, ports, wires, schedulers)
        p.ack = 512 * (i + 1)
        p.color = rng.choice(["", "green", "red"])
        p.current_time = 0.25 * i
        p.perhop_time = {"sw.0": 0.5 + i}
        p.priorities = {3: 2}
        all_attrs = {k: (dict(v) if isinstance(v, dict) else v) for k, v in vars(p).items()}
        orig_fields = tuple(getattr(p, f) for f in vnet.FIELDS)
        sp.put(p)
        stats["splitter_packets"] += 1
        if tuple(getattr(p, f) for f in vnet.FIELDS) != orig_fields:
            bad("splitter-copy-not-independent", "a receiver changing its copy's header fields changed the original", None)
            return False
        for j, o in enumerate(outs):
            if isinstance(o, Rewriter) and o.seen and o.seen[-1] != orig_fields:
                bad("splitter-copy-carries-foreign-changes", "a splitter copy arrived with header fields another receiver had changed on its own copy",
                    {"output": j, "arrived": o.seen[-1], "original": orig_fields})
                return False
        for j, o in enumerate(outs):
            if o is None:
                continue
            if len(o.got) != i + 1:
                bad("splitter-output-count", "a splitter output did not get exactly one packet per input", j)
                return False
            q = o.got[-1]
            if j == 0:
                if q is not p:
                    bad("splitter-first-output-not-original", "the first splitter output did not get the original packet", None)
                    return False
            else:
                if q is p or any(q is o2.got[-1] for k2, o2 in enumerate(outs) if o2 is not None and k2 != j and k2 != 0 and len(o2.got) == i + 1 and k2 < j):
                    bad("splitter-copy-not-separate", "a secondary splitter output did not get its own separate copy", j)
                    return False
                if not isinstance(o, Rewriter):
                    now_attrs = {k: v for k, v in vars(q).items()}
                    if type(q) is not type(p) or now_attrs != all_attrs:
                        diff = sorted(k for k in set(now_attrs) | set(all_attrs) if now_attrs.get(k, "<missing>") != all_attrs.get(k, "<missing>"))
                        bad("splitter-copy-incomplete", "a splitter copy does not carry every attribute of the original packet",
                            {"differing": diff, "output": j})
                        return False
                for f in vnet.FIELDS:
                    if isinstance(o, Rewriter):
                        break
                    if getattr(q, f) != getattr(p, f):
                        bad("splitter-copy-fields-differ", "a splitter copy's header fields differ from the original", f)
                        return False
                q.flow_id = 777
                q.size = 1
                q.time = -1
                if p.flow_id == 777 or p.size == 1 or p.time == -1:
                    bad("splitter-copy-not-independent", "changing a copy's header fields changed the original", None)
                    return False
    return False


# ---------------------------------------------------------------------------
def fattree_case(rng, stats, bad, k, e2e):
    import networkx as nx
    from onl.topo import FatTree
    random.seed(rng.randrange(1 << 30))
    ft = FatTree(k)
    G = ft.topo
    stats["fattree_built"] += 1
    layers = {}
    for n, d in G.nodes(data=True):
        layers.setdefault(d["layer"], []).append(n)
    want = {"core": (k // 2) ** 2, "aggregation": k * k // 2, "edge": k * k // 2, "leaf": k ** 3 // 4}
    for lay, cnt in want.items():
        if len(layers.get(lay, [])) != cnt:
            bad("fattree-layer-size-wrong", "FatTree(k) does not have the standard number of nodes in a layer",
                {"k": k, "layer": lay, "got": len(layers.get(lay, [])), "want": cnt})
            return False
    if set(ft.hosts) != set(layers["leaf"]):
        bad("fattree-hosts-wrong", "FatTree.hosts is not the set of leaf nodes", None)
        return False
    for n in G.nodes():
        deg = G.degree(n)
        lay = G.nodes[n]["layer"]
        if lay == "leaf":
            if deg != 1 or G.nodes[next(iter(G[n]))]["layer"] != "edge":
                bad("fattree-host-attachment-wrong", "a host is not attached to exactly one edge switch", n)
                return False
        elif deg != k:
            bad("fattree-switch-degree-wrong", "a switch of FatTree(k) does not have degree k", {"node": n, "layer": lay, "degree": deg, "k": k})
            return False
    for e in layers["edge"]:
        if sum(1 for x in G[e] if G.nodes[x]["layer"] == "leaf") != k // 2:
            bad("fattree-hosts-per-edge-wrong", "an edge switch does not have k/2 hosts", e)
            return False
    if not nx.is_connected(G):
        bad("fattree-not-connected", "the fat tree is not connected", k)
        return False
    nflows = rng.randint(1, 60 if not e2e else 12)
    flows = ft.generate_flows(nflows)
    tcp = rng.random() < 0.5
    for f, fl in flows.items():
        if fl.src == fl.dst or fl.src not in ft.hosts or fl.dst not in ft.hosts:
            bad("fattree-flow-endpoints-wrong", "a generated flow does not connect two distinct hosts", [fl.src, fl.dst])
            return False
        sp = nx.shortest_path_length(G, fl.src, fl.dst)
        if fl.path[0] != fl.src or fl.path[-1] != fl.dst or len(fl.path) - 1 != sp or \
                any(not G.has_edge(a, b) for a, b in zip(fl.path, fl.path[1:])):
            bad("fattree-flow-path-not-shortest", "a generated flow's path is not a shortest path between its hosts", fl.path)
            return False
    if not e2e and rng.random() < 0.3:
        # the caller keeps a selection of the flows in a dict of its own, keyed by something else than the flow ids
        chosen = [fl for fl in flows.values() if rng.random() < 0.7] or list(flows.values())
        flows = {f"job-{j}": fl for j, fl in enumerate(chosen)}
        stats["fattree_flow_dicts_rekeyed"] += 1
    try:
        ft.generate_fib(flows, tcp=tcp)
    except Exception as e:
        bad(f"exception:{type(e).__name__}@FatTree.generate_fib", "generating the forwarding tables raised",
            {"exc": repr(e)[:150], "flow_dict_keys": sorted(map(str, flows))[:4], "tcp": tcp})
        return False
    if rng.random() < 0.35:
        # a second, independent tree of the same size gets its own flows and tables: this must not disturb the first
        other = FatTree(k)
        oflows = other.generate_flows(rng.randint(1, 20))
        other.generate_fib(oflows, tcp=not tcp)
        stats["fattree_twin_trees"] += 1
    for f, fl in flows.items():
        stats["fib_walks"] += 1
        for fid, path in ((fl.fid, fl.path),) + (((fl.fid + 10000, fl.path[::-1]),) if tcp else ()):
            if fid >= 10000:
                stats["reverse_walks"] += 1
            node = path[0]
            walked = [node]
            while node != path[-1] and len(walked) <= len(path) + 1 and node in G.nodes:
                nd = G.nodes[node]
                port = nd["flow_to_port"].get(fid)
                if port is None:
                    break
                node = nd["port_to_nexthop"].get(port)
                walked.append(node)
            if walked != list(path):
                bad("fattree-fib-walk-leaves-path" if fid < 10000 else "fattree-reverse-fib-walk-leaves-path",
                    "following the generated forwarding tables hop by hop does not reproduce the flow's path",
                    {"flow": fid, "path": list(path), "walked": walked, "k": k})
                return False
        if not tcp and any((fl.fid + 10000) in G.nodes[n]["flow_to_port"] for n in fl.path):
            bad("fattree-reverse-entries-without-tcp", "reverse entries were generated although tcp=False", None)
            return False
    if not e2e:
        return nflows >= 3
    return fattree_e2e(rng, stats, bad, ft, flows, tcp, k)


def fattree_e2e(rng, stats, bad, ft, flows, tcp, k):
    from onl.netdev import FairPacketSwitch
    from onl.packet import PacketSink
    G = ft.topo
    net = vnet.Net()
    env = net.env
    server = rng.choice(["SP", "WFQ", "DRR", "VirtualClock"])
    shared = rng.random() < 0.6
    stats["e2e_" + server] += 1
    if shared:
        stats["e2e_shared_class_runs"] += 1
    nclass = 3
    f2c = (lambda f: f % nclass) if shared else (lambda f: f)
    allf = list(flows) + ([f + 10000 for f in flows] if tcp else [])
    if server == "SP":
        weights = {f: rng.choice([1, 2, 3]) for f in allf}
    else:
        weights = {f2c(f): rng.choice([1, 2, 3]) for f in allf}
    seen = {}            # uid -> list of nodes

    def tap(node, dev):
        orig = dev.put

        def put(p):
            u = net.pk.register(p)
            seen.setdefault(u, []).append(node)
            return orig(p)
        dev.put = put

    for n in G.nodes():
        nd = G.nodes[n]
        dev = FairPacketSwitch(env, k, 1e6, 1000, weights, server, element_id=f"{n}", flow2class=f2c)
        dev.demux.fib = nd["flow_to_port"]
        nd["device"] = dev
        tap(n, dev)
    for n in G.nodes():
        nd = G.nodes[n]
        for port, nh in nd["port_to_nexthop"].items():
            nd["device"].ports[port].out = G.nodes[nh]["device"]
    sinks = {}
    for f, fl in flows.items():
        s = net.recorder(f"sink{f}")
        sinks[f] = s
        G.nodes[fl.dst]["device"].demux.ends[f] = s
        if tcp:
            r = net.recorder(f"rsink{f}")
            sinks[f + 10000] = r
            G.nodes[fl.src]["device"].demux.ends[f + 10000] = r
    expect = {}
    for f, fl in flows.items():
        arr = []
        t = 0
        for i in range(rng.randint(2, 8)):
            t += rng.choice([0, 0.001, 0.0005])
            arr.append({"t": t, "flow": f, "size": rng.choice([100, 400]), "pid": i})
        net.driver(G.nodes[fl.src]["device"], arr, on_inject=lambda p, a, f=f, fl=fl: expect.__setitem__(id(p), (f, list(fl.path))))
        if tcp:
            arr2 = [{"t": 0.01 + 0.001 * i, "flow": f + 10000, "size": 40, "pid": i} for i in range(rng.randint(1, 3))]
            net.driver(G.nodes[fl.dst]["device"], arr2,
                       on_inject=lambda p, a, f=f, fl=fl: expect.__setitem__(id(p), (f + 10000, list(fl.path[::-1]))))
    with vnet_quiet():
        err = net.run()
    if err:
        bad(err + f"[fattree,{server},{'shared-classes' if shared else 'identity'}]", "the fat-tree simulation raised", net.errors[-1] if net.errors else err)
        return False
    at = {}
    for f, s in sinks.items():
        for (_, u, p) in s.got:
            at.setdefault(u, []).append(f)
    for u, p in enumerate(net.pk.objs):
        f, path = expect[id(p)]
        stats["e2e_packets"] += 1
        stats["e2e_hops"] += len(seen.get(u, []))
        if seen.get(u, []) != path:
            bad(f"fattree-packet-left-its-path", "in the simulated fat tree a packet was not seen exactly at the nodes of its flow's path, in order",
                {"flow": f, "path": path, "seen": seen.get(u, []), "server": server, "shared": shared})
            return False
        if at.get(u, []) != [f]:
            bad("fattree-packet-wrong-sink", "in the simulated fat tree a packet did not arrive at its own flow's sink exactly once and at no other",
                {"flow": f, "sinks": at.get(u, []), "server": server, "shared": shared})
            return False
    return True


def one_case(ctx, kind, rng, stats):
    viol = []

    def bad(m, what, wit=None):
        if len(viol) < 3:
            viol.append((m, what, wit))
    if kind == "demux":
        nt = demux_case(rng, stats, bad)
    elif kind == "switch":
        nt = switch_case(rng, stats, bad)
    elif kind == "hub":
        nt = hub_case(rng, stats, bad)
    elif kind == "splitter":
        nt = splitter_case(rng, stats, bad)
    elif kind == "fattree":
        ks = [2, 4, 6, 8] if ctx.tier == "quick" else [2, 4, 6, 8, 10, 12]
        nt = fattree_case(rng, stats, bad, rng.choice(ks), False)
    else:
        nt = fattree_case(rng, stats, bad, rng.choice([2, 4, 4]), True)
    return viol, nt


KINDS = ["demux", "demux", "demux", "switch", "hub", "splitter", "demux", "fattree", "e2e", "switch", "hub", "demux", "fattree"]


def run_shard(ctx):
    import collections
    stats = collections.Counter({k: 0 for k in KEYS})
    for i in ctx.cases(ncases(ctx.tier)):
        kind = KINDS[i % len(KINDS)]
        case = {"kind": kind, "regen": [ctx.seed, ctx.shard, i]}
        viol, nt = one_case(ctx, kind, ctx.rng(i), stats)
        for m, what, wit in viol:
            ctx.violation(m, what, wit, case)
        ctx.case_done(case, nt)
    for k in KEYS:
        ctx.count(k, stats[k])


def replay(ctx, case):
    import collections
    seed, shard, i = case["regen"]
    rng = random.Random(f"{PID}:{seed}:{shard}:{i}")
    viol, _ = one_case(ctx, case["kind"], rng, collections.Counter())
    for m, what, wit in viol:
        ctx.violation(m, what, wit, case)
