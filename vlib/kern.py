"""Kernel-side instruments: I1 monitored environment, I2 tape, I6 program DSL + interpreter,
and the property-literal monitors (shadow agenda, waiter ledger, interrupt ledger,
closed-form conditions) used by C01..C05, C03 split plans and C20.
"""
import heapq

from . import speckernel

URGENT, NORMAL = 0, 1


# ---------------------------------------------------------------------------
# I1
# ---------------------------------------------------------------------------
_monenv_cache = {}


def make_monenv(Base):
    """Subclass of an Environment class whose step() runs harness hooks.

    advance_hooks run before a step that is about to advance the clock (or finds the
    agenda empty) -- the "whenever the clock is about to advance" observation point;
    post_hooks run after every step.  run() of the base class calls self.step(), so
    the real run loop drives the hooks.
    """
    if Base in _monenv_cache:
        return _monenv_cache[Base]

    class MonEnv(Base):
        def __init__(self, *a, **k):
            Base.__init__(self, *a, **k)
            self.steps = 0
            self.advance_hooks = []
            self.post_hooks = []

        def step(self):
            if self.advance_hooks and self.peek() != self.now:
                for h in self.advance_hooks:
                    h(self)
            self.steps += 1
            try:
                Base.step(self)
            finally:
                for h in self.post_hooks:
                    h(self)

    MonEnv.__name__ = "Mon" + Base.__name__
    _monenv_cache[Base] = MonEnv
    return MonEnv


class RealK:
    """Namespace of the kernel under test (filled lazily, after import_repo())."""
    name = "real"
    _loaded = False

    @classmethod
    def load(cls):
        if cls._loaded:
            return cls
        from onl.sim import core, events, exceptions
        cls.Environment = core.Environment
        cls.Interrupt = exceptions.Interrupt
        cls.EmptySchedule = core.EmptySchedule
        cls.Event = events.Event
        cls.Timeout = events.Timeout
        cls._loaded = True
        _load_library_exceptions()
        return cls


class Boom(Exception):
    pass


class Bang(Exception):
    pass


class Crit(BaseException):
    """a failure that is a BaseException but not an Exception (Event.fail accepts any BaseException)"""


EXC = {"Boom": Boom, "Bang": Bang, "ValueError": ValueError, "KeyError": KeyError, "Crit": Crit,
       "IndexError": IndexError, "StopIteration": StopIteration, "RuntimeError": RuntimeError}      # (types the kernel itself uses internally)


class AnyVal:
    """a value that claims equality with everything (like unittest.mock.ANY): legal as an event value"""

    def __eq__(self, other):
        return True

    def __ne__(self, other):
        return False

    __hash__ = object.__hash__

    def __repr__(self):
        return "<ANY>"


def _load_library_exceptions():
    """exception classes the library itself exports are legal failure types too"""
    if "StopProcess" not in EXC:
        from onl.sim.exceptions import StopProcess
        EXC["StopProcess"] = StopProcess


def make_exc(name, tag, n):
    """an exception instance of the named type (StopProcess takes exactly one argument)"""
    if name == "StopProcess":
        return EXC[name](tag)
    return EXC[name](tag, n)


def canon_exc(e):
    return ("exc", type(e).__name__, tuple(repr(a) if not isinstance(a, (int, str, float, type(None))) else a
                                           for a in e.args))


# ---------------------------------------------------------------------------
# program generation (I6)
# ---------------------------------------------------------------------------
EXACT_DELAYS = [0, 0, 1, 1, 2, 3, 0.5, 0.25, 1.5]
FLOAT_DELAYS = [0, 0.1, 0.2, 0.3, 0.7, 1.1, 1.73, 2.2, 0.05, 3.3]


RATIONAL_DELAYS = ["0", "1/10", "7/10", "1/3", "2/3", "4/5", "1", "3/2", "1/10", "1/5"]


def num(d):
    """a delay / instant of a program: int, float, or "p/q" = an exact fractions.Fraction (programs stay JSON-able)"""
    if isinstance(d, str):
        from fractions import Fraction
        return Fraction(d)
    return d


def gen_delay(rng, flavour):
    if flavour == "rational":
        return rng.choice(RATIONAL_DELAYS)
    if flavour == "exact":
        return rng.choice(EXACT_DELAYS)
    if rng.random() < 0.3:
        return round(rng.uniform(0, 3), rng.choice([1, 2, 3]))
    return rng.choice(FLOAT_DELAYS)


def gen_cond(rng, prof, flavour, depth, nev, npids):
    """condition tree: ["all"|"any", style, [children]]; leaves ["t", d] | ["e", i] | ["p", pid]"""
    arity = rng.choice([0, 1, 2, 2, 2, 3, 3, 4]) if depth > 0 else rng.choice([1, 2, 2, 3])
    kids = []
    for _ in range(arity):
        r = rng.random()
        if depth < prof.get("cond_depth", 3) - 1 and r < 0.25:
            kids.append(gen_cond(rng, prof, flavour, depth + 1, nev, npids))
        elif r < 0.31 and depth == 0 and prof.get("reuse_conditions"):
            kids.append(["c", rng.randrange(8)])         # a condition this program built EARLIER (possibly processed by now)
        elif r < 0.65 or (nev == 0 and npids == 0):
            kids.append(["t", gen_delay(rng, flavour)])
        elif r < 0.88 and nev:
            kids.append(["e", rng.randrange(nev)])
        elif npids:
            kids.append(["p", rng.randrange(npids)])
        else:
            kids.append(["t", gen_delay(rng, flavour)])
    mode = rng.choice(["all", "any"])
    style = "op" if arity == 2 and rng.random() < 0.5 else rng.choice(["ctor", "ctor", "gen", "iter", "tuple", "mutlist"])
    return [mode, style, kids]


def gen_script(rng, prof, flavour, idx, nscripts, nev, npids_guess):
    nops = rng.randint(prof.get("min_ops", 2), prof.get("max_ops", 9))
    ops = []
    w = prof["weights"]
    kinds = list(w)
    weights = [w[k] for k in kinds]
    nkids = 0
    for _ in range(nops):
        k = rng.choices(kinds, weights)[0]
        if k == "timeout":
            d = gen_delay(rng, flavour)
            if flavour != "rational" and rng.random() < prof.get("p_inf_delay", 0.0):
                d = float("inf")            # "sleep for ever": due at the instant inf, which is an instant like any other
            ops.append(["timeout", d] + (["ctor"] if rng.random() < 0.1 else []))
        elif k == "chain" and nev >= 2:
            a, b = rng.sample(range(nev), 2)
            ops.append(["chain", a, b])
        elif k == "cbint" and nev:
            ops.append(["cbint", rng.randrange(nev), rng.randrange(max(1, npids_guess))])
        elif k == "wait" and nev:
            ops.append(["wait", rng.randrange(nev)])
        elif k == "succeed" and nev:
            ops.append(["succeed", rng.randrange(nev)] + (["excval"] if rng.random() < 0.08 else ["anyval"] if rng.random() < 0.05
                                                          else ["listval"] if rng.random() < 0.12 else []))
        elif k == "fail" and nev:
            ops.append(["fail", rng.randrange(nev), rng.choice(["Boom", "Bang", "ValueError", "Boom", "Crit", "StopProcess", "IndexError", "notexc"])])
        elif k == "spawn" and idx + 1 < nscripts:
            ops.append(["spawn", rng.randrange(idx + 1, nscripts)])
            nkids += 1
        elif k == "join":
            if nkids and rng.random() < 0.7:
                ops.append(["joinkid", rng.randrange(nkids)])
            else:
                ops.append(["joinpid", rng.randrange(max(1, npids_guess))])
        elif k == "interrupt":
            ops.append(["interrupt", rng.randrange(max(1, npids_guess))] + (["fwd"] if rng.random() < 0.15 else []))
        elif k == "cb" and nev:
            ops.append(["cb", rng.randrange(nev)])
        elif k == "ptrigger":
            ops.append(["ptrigger", rng.randrange(max(1, npids_guess)), rng.choice(["succeed", "fail"])])
        elif k == "cond":
            ops.append(["cond", gen_cond(rng, prof, flavour, 0, nev, npids_guess)])
        elif k == "zero":
            ops.append(["timeout", 0])
        else:
            ops.append(["timeout", gen_delay(rng, flavour)])
    end = None
    r = rng.random()
    if r < prof.get("p_raise", 0.1):
        end = ["raise", rng.choice(["Boom", "Bang", "Boom", "Crit", "StopProcess", "IndexError"])]
    elif r < 0.6:
        end = ["ret", f"r{idx}"]
    elif r < 0.63:
        end = ["retexc", f"r{idx}"]
    return {
        "ops": ops,
        "on_fail": rng.choices(["catch", "raise"], [prof.get("p_catch", 0.7), 1 - prof.get("p_catch", 0.7)])[0],
        "on_int": rng.choices(["next", "rewait", "other", "die", "raise"], prof.get("int_policy", [4, 4, 2, 1, 1]))[0],
        "end": end,
    }


def gen_program(rng, prof):
    flavour = "exact" if rng.random() < prof.get("p_exact", 0.7) else "float"
    if rng.random() < prof.get("p_rational", 0.0):
        flavour = "rational"          # an exact rational clock: delays that are neither int nor float
    ntop = rng.randint(prof.get("min_top", 1), prof.get("max_top", 5))
    nscripts = ntop + rng.randint(0, prof.get("max_child_scripts", 3))
    nev = rng.randint(prof.get("min_ev", 0), prof.get("max_ev", 3))
    guess = ntop + 2
    scripts = [gen_script(rng, prof, flavour, i, nscripts, nev, guess) for i in range(nscripts)]
    t0 = rng.choice(prof.get("t0", [0])) if flavour != "rational" else 0
    return {"flavour": flavour, "t0": t0, "nev": nev, "scripts": scripts, "top": list(range(ntop))}


# ---------------------------------------------------------------------------
# the interpreter
# ---------------------------------------------------------------------------
class Tape(list):
    """I2: append-only tape; the kernel step index of every entry is kept beside it (not
    part of the entry, so that tape equality does not depend on how many internal steps a
    kernel uses)."""

    def __init__(self, env):
        list.__init__(self)
        self.env = env
        self.steps = []

    def append(self, e):
        list.append(self, e)
        self.steps.append(self.env.steps)


class Runner:
    """Runs one program on one kernel namespace; everything observable goes to the tape."""

    MAX_REWAIT = 3
    MAX_ESCAPES = 6
    STEP_CAP = 20000

    def __init__(self, K, program, mon=None, envclass=None, env=None, bare=False):
        self.K = K
        self.bare = bare          # no probe callbacks at all: everything is observed from process bodies only
        self.prog = program
        Env = make_monenv(envclass or K.Environment)
        self.env = env if env is not None else Env(program.get("t0", 0))
        self.mon = mon
        self.tape = Tape(self.env)
        self.procs = []          # pid -> process event
        self.ended = []          # pid -> bool (generator has finished)
        self.started = []
        self.endinfo = {}        # pid -> ("ret"|"raise", value)
        self.label_of = {}       # id(event) -> label
        self.keep = []           # strong refs (I4)
        self.nuid = 0
        self.nint = 0
        self.pstep = {}          # label -> kernel step at which it was processed
        self.ptime = {}
        self.pout = {}           # label -> outcome (canonical)
        self.conds = []          # info dicts of every condition built
        self.built = []          # (condition event, info) in construction order
        self.cond_operands = set()
        self.escapes = []
        self.shared = []
        for i in range(program["nev"]):
            ev = self.env.event()
            self.shared.append(ev)
            self._name(ev, f"E{i}")
            self._probe(ev, f"E{i}", NORMAL)
        if mon:
            mon.attach(self)

    # -- naming and probes ----------------------------------------------------
    def _name(self, ev, label):
        self.label_of[id(ev)] = label
        self.keep.append(ev)

    def _probe(self, ev, label, cls):
        if self.bare:
            return

        def cb(e, label=label, cls=cls):
            env = self.env
            self.pstep[label] = env.steps
            self.ptime[label] = env.now
            self.pout[label] = self.cv(e._value) if e._ok else canon_exc(e._value)
            self.tape.append((env.now, "probe", label))
            if self.mon:
                self.mon.effect(label, cls, e)
        ev.callbacks.append(cb)

    def cv(self, val):
        """canonical form of a received value"""
        if isinstance(val, AnyVal):
            return ("anyval",)
        if isinstance(val, list):
            return ("list", tuple(self.cv(x) for x in val))
        if val is None or isinstance(val, (int, float, str)):
            return val
        if hasattr(val, "todict") and hasattr(val, "events"):
            keys = list(val.keys())
            d = val.todict()
            out = []
            for e in keys:
                out.append((self.label_of.get(id(e), "?"), canon_exc(d[e]) if e._ok is False else self.cv(d[e])))
                # the dict-like views must agree with each other (C05 "exact value")
                if e not in val or val[e] is not d[e]:
                    out.append(("!inconsistent-view", self.label_of.get(id(e), "?")))
            if not (val == d):
                out.append(("!eq-dict-false",))
            return ("cv", tuple(out))
        if isinstance(val, BaseException):
            e = canon_exc(val)
            return ("excval", e[1], e[2])        # an exception object delivered as an ordinary *value*
        return repr(type(val).__name__)

    # -- process spawning -----------------------------------------------------
    def spawn(self, script_idx, parent=None):
        pid = len(self.procs)
        self.procs.append(None)
        self.ended.append(False)
        self.started.append(False)
        gen = self.body(pid, self.prog["scripts"][script_idx])
        if self.mon:
            self.mon.trigger(f"S{pid}", URGENT, self.env.now)
        p = self.env.process(gen)
        self.procs[pid] = p
        self._name(p, f"P{pid}")
        self._probe(p, f"P{pid}", NORMAL)
        self.tape.append((self.env.now, "spawn", parent, pid))
        return pid

    # -- building yield targets -------------------------------------------------
    def ccause(self, c):
        """canonical form of an interrupt cause (a forwarded Interrupt object is a legal cause)"""
        if isinstance(c, self.K.Interrupt):
            return ("Interrupt", self.ccause(c.cause))
        return c

    def new_timeout(self, d, ctor=False):
        d = num(d)
        self.nuid += 1
        label = f"T{self.nuid}"
        if self.mon:
            self.mon.trigger(label, NORMAL, self.env.now + d)
        # the exported class constructed directly is the same public API as env.timeout()
        ev = self.K.Timeout(self.env, d, "v" + label) if ctor else self.env.timeout(d, "v" + label)
        self._name(ev, label)
        self._probe(ev, label, NORMAL)
        return ev, label

    def build_cond(self, tree):
        mode, style, kids = tree
        evs, ltree = [], []
        reused = False
        for k in kids:
            if k[0] == "t":
                ev, lab = self.new_timeout(k[1])
                evs.append(ev)
                ltree.append(lab)
            elif k[0] == "e":
                evs.append(self.shared[k[1]])
                ltree.append(f"E{k[1]}")
            elif k[0] == "p":
                if k[1] < len(self.procs) and self.procs[k[1]] is not None:
                    evs.append(self.procs[k[1]])
                    ltree.append(f"P{k[1]}")
            elif k[0] == "c":
                # only conditions that have been PROCESSED by now ("operands already processed at construction"): a
                # pending sub-condition shared by two parents would make the operands a DAG, not a tree (the quantifier)
                done = [b for b in self.built if b[0].callbacks is None]
                if done:
                    ev, sub = done[k[1] % len(done)]
                    evs.append(ev)
                    ltree.append(sub)
                    reused = True
            else:
                ev, sub = self.build_cond(k)
                evs.append(ev)
                ltree.append(sub)
        env = self.env
        step0 = env.steps
        if style == "op" and len(evs) == 2:
            c = (evs[0] & evs[1]) if mode == "all" else (evs[0] | evs[1])
        else:
            if style == "gen":
                arg = (e for e in evs)              # a one-shot iterable (possibly yielding nothing)
            elif style == "iter":
                arg = iter(evs)
            elif style == "tuple":
                arg = tuple(evs)
            elif style == "mutlist":
                arg = list(evs)
            else:
                arg = evs
            c = env.all_of(arg) if mode == "all" else env.any_of(arg)
            if style == "mutlist":
                # the caller goes on using its list: the condition's operands are those it was built from
                if len(arg) % 2 and len(arg) > 1:
                    arg.pop()
                else:
                    arg.append(env.event())          # (never triggered)
                    arg.reverse()
        self.nuid += 1
        label = f"C{self.nuid}"
        self._name(c, label)
        if c.callbacks is not None and not self.bare:
            self._probe(c, label, NORMAL)
        for l in ltree:
            self.cond_operands.add(l if isinstance(l, str) else l["label"])
        info = {"label": label, "mode": mode, "kids": ltree, "now": env.now, "step": step0,
                "pre": [isinstance(l, str) and l in self.pstep for l in ltree]}
        if reused or any(isinstance(l, dict) and l.get("reused_sub") for l in ltree):
            info["reused_sub"] = True        # staged construction: left to the spec-kernel comparison, not to the closed form
        self.conds.append(info)
        self.built.append((c, info))
        return c, info

    # -- the process body -------------------------------------------------------
    def body(self, pid, script):
        env, tape, mon, K = self.env, self.tape, self.mon, self.K
        self.started[pid] = True
        tape.append((env.now, "start", pid))
        if mon:
            mon.effect(f"S{pid}", URGENT, None)
        kids = []
        on_fail, on_int = script["on_fail"], script["on_int"]
        try:
            for opi, op in enumerate(script["ops"]):
                kind = op[0]
                ev = None
                if kind == "timeout":
                    ev, label = self.new_timeout(op[1], ctor=len(op) > 2)
                elif kind == "wait":
                    ev, label = self.shared[op[1]], f"E{op[1]}"
                elif kind == "joinkid":
                    if op[1] < len(kids):
                        ev, label = self.procs[kids[op[1]]], f"P{kids[op[1]]}"
                elif kind == "joinpid":
                    if op[1] < len(self.procs) and op[1] != pid and self.procs[op[1]] is not None:
                        ev, label = self.procs[op[1]], f"P{op[1]}"
                elif kind == "cond":
                    ev, info = self.build_cond(op[1])
                    label = info["label"]
                elif kind == "succeed" or kind == "fail":
                    tgt = self.shared[op[1]]
                    was = tgt.triggered
                    before = (tgt._ok, tgt._value) if was else None
                    notexc = kind == "fail" and op[2] == "notexc"
                    if mon and not was and not notexc:
                        mon.trigger(f"E{op[1]}", NORMAL, env.now)
                    try:
                        if kind == "succeed":
                            if len(op) > 2 and op[2] == "excval":
                                tgt.succeed(Boom(f"value{pid}.{opi}"))      # an exception object as an ordinary value
                            elif len(op) > 2 and op[2] == "anyval":
                                tgt.succeed(AnyVal())                       # a value that compares equal to everything
                            elif len(op) > 2 and op[2] == "listval":
                                tgt.succeed(["reply-slot", pid, opi])       # a mutable container: waiters get this very object
                            else:
                                tgt.succeed(f"s{pid}.{opi}")
                        elif op[2] == "notexc":
                            # fail() with something that is no exception: refused with ValueError while the event is
                            # pending -- but an event that was already triggered refuses ANY second trigger with RuntimeError
                            tgt.fail(f"not-an-exception{pid}.{opi}")
                        else:
                            tgt.fail(make_exc(op[2], f"f{pid}.{opi}", opi))
                        res = "ok"
                    except RuntimeError:
                        res = "RuntimeError"
                    except ValueError:
                        res = "ValueError"
                    tape.append((env.now, kind, pid, opi, f"E{op[1]}", res,
                                 before is None or (before[0] is tgt._ok and before[1] is tgt._value)))
                    if notexc and not was:
                        # a pending event: refused with ValueError and still pending afterwards
                        if mon and (res != "ValueError" or tgt.triggered):
                            mon.bad("fail-with-non-exception-accepted", "fail() with a non-exception did not raise ValueError (or triggered the event)", f"E{op[1]}")
                        continue
                    if mon:
                        mon.trigger_result(f"E{op[1]}", was, res,
                                           before is None or (before[0] is tgt._ok and before[1] is tgt._value))
                    continue
                elif kind == "spawn":
                    kids.append(self.spawn(op[1], pid))
                    continue
                elif kind == "interrupt":
                    v = op[1]
                    if v >= len(self.procs) or self.procs[v] is None:
                        continue
                    self.nint += 1
                    cause = f"i{self.nint}"
                    raw = cause
                    if len(op) > 2:
                        # an Interrupt object as the cause (a handler passing on what it caught): the victim must
                        # receive Interrupt(<that object>), not an unwrapped copy
                        raw = K.Interrupt(cause)
                        cause = ("Interrupt", cause)
                    expect_err = (v == pid) or self.ended[v]
                    if mon and not expect_err:
                        mon.trigger("I" + str(cause), URGENT, env.now)
                    try:
                        self.procs[v].interrupt(raw)
                        res = "ok"
                    except RuntimeError:
                        res = "RuntimeError"
                    tape.append((env.now, "interrupt", pid, opi, v, cause, res))
                    if mon:
                        mon.interrupt_issued(cause, pid, v, expect_err, res)
                    continue
                elif kind == "ptrigger":
                    # a second trigger attempt on a process event that has ended (returned or crashed): RuntimeError, no effect
                    v = op[1]
                    if v < len(self.procs) and self.procs[v] is not None and self.procs[v].triggered:
                        tgt = self.procs[v]
                        before = (tgt._ok, tgt._value)
                        try:
                            if op[2] == "succeed":
                                tgt.succeed("again")
                            else:
                                tgt.fail(Boom("again"))
                            res = "ok"
                        except RuntimeError:
                            res = "RuntimeError"
                        except Exception as e:
                            res = type(e).__name__
                        try:
                            repr(tgt)
                        except Exception as e:
                            res += "+repr:" + type(e).__name__
                        same = before[0] is tgt._ok and before[1] is tgt._value
                        tape.append((env.now, "ptrigger", pid, opi, f"P{v}", res, same))
                        if mon:
                            mon.trigger_result(f"P{v}", True, res, same)
                    continue
                elif kind == "chain":
                    src, dst = self.shared[op[1]], self.shared[op[2]]
                    if src.callbacks is not None:
                        def fwd(e, dst=dst, lab=f"E{op[2]}", slab=f"E{op[1]}"):
                            # dst.trigger(src) is the library's chaining callback; calling it on a triggered event is
                            # misuse (nothing is stated about it), so the harness only chains into a pending event
                            if dst.triggered:
                                tape.append((env.now, "chain-skip", slab, lab))
                                return
                            if mon:
                                mon.trigger(lab, NORMAL, env.now)
                            dst.trigger(e)
                            tape.append((env.now, "chain", slab, lab))
                        src.callbacks.append(fwd)
                        tape.append((env.now, "addchain", pid, opi, f"E{op[1]}", f"E{op[2]}"))
                    continue
                elif kind == "cbint":
                    tgt = self.shared[op[1]]
                    v = op[2]
                    if tgt.callbacks is not None and v < len(self.procs) and self.procs[v] is not None:
                        def cbi(e, v=v, opi=opi):
                            # an interrupt issued from a plain callback (no process is active)
                            self.nint += 1
                            cause = f"i{self.nint}"
                            expect_err = self.ended[v]
                            if mon and not expect_err:
                                mon.trigger("I" + cause, URGENT, env.now)
                            try:
                                self.procs[v].interrupt(cause)
                                res = "ok"
                            except RuntimeError:
                                res = "RuntimeError"
                            tape.append((env.now, "interrupt", "cb", opi, v, cause, res))
                            if mon:
                                mon.interrupt_issued(cause, -1, v, expect_err, res)
                        tgt.callbacks.append(cbi)
                        tape.append((env.now, "addcbint", pid, opi, f"E{op[1]}", v))
                    continue
                elif kind == "cb":
                    tgt = self.shared[op[1]]
                    if tgt.callbacks is not None:
                        n = len(tape)
                        cbid = f"cb{pid}.{opi}"

                        def cb(e, cbid=cbid, lab=f"E{op[1]}"):
                            tape.append((env.now, "cb", cbid, lab, self.cv(e._value) if e._ok else canon_exc(e._value)))
                            if mon:
                                mon.resumed(("cb", cbid), lab, e, e._value, False)
                        tgt.callbacks.append(cb)
                        tape.append((env.now, "addcb", pid, opi, f"E{op[1]}"))
                        if mon:
                            mon.register(f"E{op[1]}", ("cb", cbid))
                    continue
                if ev is None:
                    continue
                rewaits = 0
                while True:
                    imm = ev.callbacks is None
                    tape.append((env.now, "yield", pid, opi, label, imm))
                    if mon and not imm:
                        mon.register(label, ("p", pid))
                    try:
                        val = yield ev
                    except K.Interrupt as it:
                        tape.append((env.now, "int", pid, opi, label, self.ccause(it.cause)))
                        if mon:
                            mon.interrupted(pid, label, self.ccause(it.cause))
                        if on_int == "rewait" and rewaits < self.MAX_REWAIT:
                            rewaits += 1
                            continue
                        if on_int == "other":
                            ev, label = self.new_timeout(1)
                            rewaits = self.MAX_REWAIT
                            continue
                        if on_int == "die":
                            return self._end(pid, "ret", "died")
                        if on_int == "raise":
                            self._end(pid, "raise", None)
                            raise Boom(f"int{pid}")
                        break
                    except GeneratorExit:
                        raise
                    except BaseException as e:
                        tape.append((env.now, "exc", pid, opi, label, canon_exc(e), imm))
                        if mon:
                            mon.resumed(("p", pid), label, ev, e, imm)
                        if on_fail == "catch":
                            break
                        self._end(pid, "raise", None)
                        raise
                    else:
                        tape.append((env.now, "got", pid, opi, label, self.cv(val), imm))
                        if mon:
                            mon.resumed(("p", pid), label, ev, val, imm)
                        break
            end = script["end"]
            if end and end[0] == "raise":
                self._end(pid, "raise", None)
                raise make_exc(end[1], f"end{pid}", pid)
            if end and end[0] == "retexc":
                return self._end(pid, "ret", Bang(end[1]))          # returns an exception object as its value
            return self._end(pid, "ret", end[1] if end else None)
        except GeneratorExit:
            raise

    def _end(self, pid, kind, value):
        self.ended[pid] = True
        self.endinfo[pid] = (kind, value)
        self.tape.append((self.env.now, "end", pid, kind))
        if self.mon:
            self.mon.trigger(f"P{pid}", NORMAL, self.env.now)
            self.mon.process_ended(pid)
        return value

    # -- driving ----------------------------------------------------------------
    def start(self):
        for s in self.prog["top"]:
            self.spawn(s)

    def run_call(self, until=None):
        """one run() call; returns ("ret", value) | ("raise", exc) | ("cap",)"""
        env = self.env
        if env.steps > self.STEP_CAP:
            return ("cap",)
        try:
            v = env.run(until) if until is not None else env.run()
            return ("ret", v)
        except (Exception, Crit) as e:
            return ("raise", e)

    def run_to_end(self):
        """run() until the agenda is drained; an escaping failure is logged and the run is
        continued (bounded)."""
        while True:
            r = self.run_call()
            if r[0] == "cap":
                self.tape.append((self.env.now, "run-end", "cap"))
                return r
            if r[0] == "ret":
                if self.env.peek() != float("inf"):
                    # run() without `until` returns only when nothing is left: something (a stop marker left behind
                    # by an aborted run(until=t)?) ended the call early -- visible on the tape, then keep going
                    self.tape.append((self.env.now, "run-returned-with-agenda-nonempty"))
                    continue
                self.tape.append((self.env.now, "run-end", "ret"))
                return r
            self.escapes.append((self.env.now, self.env.steps, r[1]))
            self.tape.append((self.env.now, "escape", canon_exc(r[1])))
            if self.mon:
                self.mon.escaped(r[1])
            if len(self.escapes) >= self.MAX_ESCAPES:
                self.tape.append((self.env.now, "run-end", "too-many-escapes"))
                return ("escapes",)

    def run_with_stops(self, stops):
        """numeric stops (ascending); returns list of (t, now_at_return) for the stops reached"""
        reached = []
        env, mon = self.env, self.mon
        for k, t in enumerate(stops):
            if not (t > env.now) or env.peek() == float("inf"):
                continue
            lab = f"U{k}"
            if mon:
                mon.trigger(lab, URGENT, t)
            r = self.run_call(until=t)
            if r[0] == "ret":
                self.tape.append((env.now, "stop", k))
                if mon:
                    mon.effect(lab, URGENT, None)
                reached.append((t, env.now))
            else:
                if mon:
                    mon.dead.add(lab)
                if r[0] == "raise":
                    self.escapes.append((env.now, env.steps, r[1]))
                    self.tape.append((env.now, "escape", canon_exc(r[1])))
                    if mon:
                        mon.escaped(r[1])
                    continue          # the aborted call must not influence the later ones: go on with the next stop
                break
        self.run_to_end()
        return reached


def count_extras(ctx, r):
    """evidence: how often the less common call forms were exercised (program ops and what fired)"""
    if r.prog.get("flavour") == "rational":
        ctx.count("rational_clock_programs")
    if any(op[0] == "timeout" and op[1] == float("inf") for sc in r.prog["scripts"] for op in sc["ops"]):
        ctx.count("programs_with_timeouts_at_infinity")
    for sc in r.prog["scripts"]:
        for op in sc["ops"]:
            if op[0] == "timeout" and len(op) > 2:
                ctx.count("timeouts_by_class_constructor")
            elif op[0] == "succeed" and len(op) > 2 and op[2] == "anyval":
                ctx.count("succeed_with_equal_to_everything_value")
            elif op[0] == "interrupt" and len(op) > 2:
                ctx.count("interrupt_ops_with_interrupt_object_as_cause")
            elif op[0] == "succeed" and len(op) > 2 and op[2] == "listval":
                ctx.count("succeed_with_mutable_list_value")
    for e in r.tape:
        if e[1] == "chain":
            ctx.count("chained_triggers_fired")
        elif e[1] == "interrupt" and e[2] == "cb":
            ctx.count("interrupts_issued_from_plain_callbacks")
        elif e[1] == "ptrigger":
            ctx.count("second_triggers_on_ended_processes")


def first_diff(a, b):
    n = min(len(a), len(b))
    for i in range(n):
        if a[i] != b[i]:
            return i
    return n if len(a) != len(b) else None


def run_on(K, program, mon=None, envclass=None, bare=False):
    r = Runner(K, program, mon=mon, envclass=envclass, bare=bare)
    r.start()
    r.run_to_end()
    return r


def spec_diff(program, real_runner=None):
    """(index, real entry, spec entry) of the first tape difference, or None."""
    RealK.load()
    rr = real_runner or run_on(RealK, program)
    sr = run_on(speckernel.K, program)
    i = first_diff(rr.tape, sr.tape)
    if i is None:
        return None, rr, sr
    return (i, rr.tape[i] if i < len(rr.tape) else None, sr.tape[i] if i < len(sr.tape) else None), rr, sr


def diff_kind(d):
    """mechanism suffix: kinds of the two first differing entries (no random values)"""
    _, a, b = d
    ka = a[1] if a else "missing"
    kb = b[1] if b else "missing"
    return f"real:{ka}/spec:{kb}"


# ---------------------------------------------------------------------------
# property-literal monitors
# ---------------------------------------------------------------------------
class Monitor:
    """Literal C01/C02/C04 monitors over the interpreter's callbacks.

    flags select which ledgers are active; `viol` collects (mechanism, what, witness).
    """

    def __init__(self, agenda=True, waiters=True, interrupts=True):
        self.use_agenda, self.use_waiters, self.use_ints = agenda, waiters, interrupts
        self.viol = []
        self.n = {"agenda_pops": 0, "waiter_invocations": 0, "int_delivered": 0, "int_issued": 0,
                  "int_discarded": 0, "escapes_matched": 0, "imm_resumes": 0, "double_triggers": 0,
                  "int_refused": 0, "same_instant_groups": 0, "mixed_class_instants": 0,
                  "same_class_triples": 0, "multi_waiter_events": 0, "failed_events": 0,
                  "int_at_target_due": 0, "source_checks": 0, "max_group": 0,
                  "int_multi_same_instant": 0}
        # shadow agenda
        self.heap = []
        self.seq = 0
        self.dead = set()
        self.due = {}
        self.last_now = None
        self.inst = None           # [time, {cls: count}]
        # waiter ledger
        self.waiting = {}          # label -> [waiter ids] in registration order
        self.where = {}            # ("p", pid) -> label it is registered on
        self.expect = None         # [label, [waiters], event, step]
        self.pending_escape = None
        self.maybe_escape_step = None
        # interrupts
        self.ints = {}             # cause -> dict
        self.by_victim = {}
        self.normal_effects = 0

    def attach(self, runner):
        self.r = runner
        runner.env.post_hooks.append(self.after_step)

    def bad(self, mech, what, wit=None):
        if len(self.viol) < 5:
            self.viol.append((mech, what, wit))

    # -- C01 -------------------------------------------------------------------
    def trigger(self, label, cls, due):
        self.due[label] = due
        if not self.use_agenda:
            return
        self.seq += 1
        heapq.heappush(self.heap, (due, cls, self.seq, label))

    def effect(self, label, cls, ev):
        now = self.r.env.now
        if self.last_now is not None and now < self.last_now:
            self.bad("clock-decreased", "simulated time decreased", [self.last_now, now, label])
        self.last_now = now
        if cls == NORMAL:
            self.normal_effects += 1
        if self.inst is None or self.inst[0] != now:
            self._close_instant()
            self.inst = [now, {URGENT: 0, NORMAL: 0}]
        self.inst[1][cls] += 1
        if self.use_agenda and not label.startswith("C"):
            heap = self.heap
            while heap and heap[0][3] in self.dead:
                self.dead.discard(heapq.heappop(heap)[3])
            if not heap:
                self.bad("effect-without-trigger", "an occurrence took effect that nothing triggered", [now, label])
            else:
                due, c, s, lab = heap[0]
                self.n["agenda_pops"] += 1
                if lab != label:
                    mine = [h for h in heap if h[3] == label]
                    if not mine:
                        self.bad("effect-without-trigger",
                                 "an occurrence took effect that nothing triggered (or took effect twice)", [now, label])
                    else:
                        m = mine[0]
                        if m[0] != due:
                            mech = "time-order-inverted"
                        elif m[1] != c:
                            mech = "urgent-not-before-normal"
                        else:
                            mech = "trigger-order-inverted"
                        self.bad(mech, "an occurrence took effect ahead of one that is due earlier / ranks first",
                                 {"now": now, "observed": list(m), "expected_first": [due, c, s, lab]})
                        heap.remove(m)
                        heapq.heapify(heap)
                else:
                    heapq.heappop(heap)
                    if now != due:
                        self.bad("effect-at-wrong-time", "an occurrence took effect at a time other than its due time",
                                 {"label": label, "due": due, "now": now})
        if self.use_waiters and ev is not None:
            self._freeze(label, ev)

    def _close_instant(self):
        if self.inst:
            u, nn = self.inst[1][URGENT], self.inst[1][NORMAL]
            if u + nn >= 2:
                self.n["same_instant_groups"] += 1
            if u and nn:
                self.n["mixed_class_instants"] += 1
            if u >= 3 or nn >= 3:
                self.n["same_class_triples"] += 1
            if u + nn > self.n["max_group"]:
                self.n["max_group"] = u + nn

    # -- C02 -------------------------------------------------------------------
    def register(self, label, wid):
        if not self.use_waiters:
            return
        self.waiting.setdefault(label, []).append(wid)
        if wid[0] == "p":
            self.where[wid] = label

    def _freeze(self, label, ev):
        self._check_expect_done()
        ws = self.waiting.pop(label, [])
        env = self.r.env
        self.expect = [label, list(ws), ev, env.steps]
        if len(ws) >= 2:
            self.n["multi_waiter_events"] += 1
        if ev._ok is False:
            self.n["failed_events"] += 1
            if label in self.r.cond_operands:
                self.maybe_escape_step = env.steps     # a condition may or may not handle it
            elif not any(w[0] == "p" for w in ws):
                self.pending_escape = (label, ev._value, env.now, env.steps)

    def _check_expect_done(self):
        if self.expect and self.expect[1]:
            self.bad("waiter-not-invoked", "a waiter registered when the event was processed was never invoked",
                     {"event": self.expect[0], "missing": self.expect[1]})
        self.expect = None

    def resumed(self, wid, label, ev, val, imm):
        """wid got `val` (value or thrown exception) while yielding / attached to `label`."""
        r = self.r
        self.n["source_checks"] += 1
        # resumption source (C02 outcome, C04 "not resumed by the old target")
        if ev.callbacks is not None:
            self.bad("resumed-by-foreign-event",
                     "a process was resumed although the event it currently yields is not processed",
                     {"waiter": wid, "yielding": label, "got": r.cv(val)})
        elif ev._ok:
            if val is not ev._value:
                self.bad("wrong-value-delivered", "a waiter received something that is not the event's value",
                         {"waiter": wid, "event": label, "got": r.cv(val), "value": r.cv(ev._value)})
        else:
            if not isinstance(val, BaseException) or type(val) is not type(ev._value) \
                    or val.args != ev._value.args:
                self.bad("wrong-exception-delivered",
                         "a waiter of a failed event did not get an exception of the same type and arguments",
                         {"waiter": wid, "event": label, "got": r.cv(val), "value": canon_exc(ev._value)})
        if imm:
            self.n["imm_resumes"] += 1
            return
        if not self.use_waiters:
            return
        self.where.pop(wid, None)
        if self.expect is None or self.expect[0] != label:
            self.bad("invoked-outside-processing", "a waiter was invoked outside the processing step of its event",
                     {"waiter": wid, "event": label, "processing": self.expect and self.expect[0]})
            return
        ws = self.expect[1]
        self.n["waiter_invocations"] += 1
        if ws and ws[0] == wid:
            ws.pop(0)
        elif wid in ws:
            self.bad("waiters-out-of-order", "waiters were not invoked in registration order",
                     {"event": label, "invoked": wid, "expected_next": ws[0]})
            ws.remove(wid)
        else:
            self.bad("waiter-invoked-twice-or-unregistered",
                     "a waiter was invoked that was not registered at processing time (or was invoked twice)",
                     {"event": label, "invoked": wid})

    def trigger_result(self, label, was_triggered, res, unchanged):
        if was_triggered:
            self.n["double_triggers"] += 1
            if res != "RuntimeError":
                self.bad("second-trigger-accepted", "a second succeed/fail did not raise RuntimeError", label)
            if not unchanged:
                self.bad("second-trigger-changed-outcome", "a refused second trigger changed the event's outcome", label)
        elif res != "ok":
            self.bad("first-trigger-refused", "succeed/fail on an untriggered event raised", label)

    def escaped(self, exc):
        pe = self.pending_escape
        env = self.r.env
        if pe is None:
            if self.maybe_escape_step == env.steps or not self.use_waiters:
                return
            self.bad("unexpected-escape", "run() raised although no unhandled failed event was processed in that step",
                     canon_exc(exc))
            return
        label, orig, now, step = pe
        self.pending_escape = None
        if type(exc) is not type(orig) or exc.args != orig.args or env.now != now or env.steps != step:
            self.bad("escape-mismatch", "the exception escaping run() is not the unhandled failure of that instant",
                     {"event": label, "expected": canon_exc(orig), "got": canon_exc(exc), "at": [now, env.now]})
        else:
            self.n["escapes_matched"] += 1

    def after_step(self, env):
        if self.use_waiters:
            self._check_expect_done()
            if self.pending_escape and self.pending_escape[3] < env.steps:
                self.bad("failure-lost", "an unhandled failed event did not make run()/step() raise at that instant",
                         {"event": self.pending_escape[0]})
                self.pending_escape = None

    # -- C04 -------------------------------------------------------------------
    def interrupt_issued(self, cause, issuer, victim, expect_err, res):
        self.n["int_issued"] += 1
        if expect_err:
            self.n["int_refused"] += 1
            if res != "RuntimeError":
                self.bad("interrupt-of-dead-or-self-accepted",
                         "interrupting a finished process or oneself did not raise RuntimeError",
                         {"issuer": issuer, "victim": victim})
            return
        if res != "ok":
            self.bad("interrupt-of-live-refused", "interrupt() on a live process raised",
                     {"issuer": issuer, "victim": victim})
            self.dead.add("I" + str(cause))
            return
        r = self.r
        tgt = self.where.get(("p", victim))
        if tgt is not None and self.due.get(tgt) == r.env.now:
            self.n["int_at_target_due"] += 1
        q = self.by_victim.setdefault(victim, [])
        if q and self.ints[q[-1]]["now"] == r.env.now:
            self.n["int_multi_same_instant"] += 1
        self.ints[cause] = {"victim": victim, "now": r.env.now, "normals": self.normal_effects, "done": False}
        q.append(cause)

    def interrupted(self, pid, label, cause):
        r = self.r
        if self.use_waiters:
            lab = self.where.pop(("p", pid), None)
            if lab is not None and ("p", pid) in self.waiting.get(lab, ()):
                self.waiting[lab].remove(("p", pid))
        self.effect("I" + str(cause), URGENT, None)
        if not self.use_ints:
            return
        rec = self.ints.get(cause)
        if rec is None or rec["victim"] != pid:
            self.bad("interrupt-misdelivered", "a process received an Interrupt that was not issued to it",
                     {"pid": pid, "cause": cause})
            return
        if rec["done"]:
            self.bad("interrupt-delivered-twice", "one interrupt was delivered twice (or after being discarded)",
                     {"pid": pid, "cause": cause})
            return
        rec["done"] = True
        self.n["int_delivered"] += 1
        q = self.by_victim.get(pid, [])
        if q and q[0] == cause:
            q.pop(0)
        else:
            self.bad("interrupts-out-of-order", "interrupts were not delivered in the order issued",
                     {"pid": pid, "got": cause, "oldest": q[0] if q else None})
            if cause in q:
                q.remove(cause)
        if r.env.now != rec["now"]:
            self.bad("interrupt-late", "an interrupt was delivered at a later simulated time than it was issued",
                     {"issued": rec["now"], "delivered": r.env.now})
        elif self.normal_effects != rec["normals"]:
            self.bad("interrupt-after-ordinary-event",
                     "an ordinary event of the instant took effect before a pending interrupt",
                     {"pid": pid, "cause": cause})

    def process_ended(self, pid):
        for c in self.by_victim.pop(pid, []):
            self.n["int_discarded"] += 1
            self.ints[c]["done"] = "discarded"
            self.dead.add("I" + str(c))

    def finish(self):
        """end-of-run checks; returns the list of violations"""
        self._close_instant()
        self.inst = None
        r = self.r
        # (peek() == inf means "nothing scheduled" OR "the next occurrence is due at the instant inf": drained is only
        # what the runner saw -- its last run() call returned because the agenda was exhausted)
        ended = [e for e in r.tape if e[1] == "run-end"]
        drained = r.env.peek() == float("inf") and (not ended or ended[-1][2] == "ret")
        if drained:
            try:
                r.env.step()
                drained = False                  # something was still scheduled (at the instant inf)
            except r.K.EmptySchedule:
                pass
            except BaseException:
                drained = False
        if self.use_ints and drained:
            for c, rec in self.ints.items():
                if rec["done"] is False:
                    self.bad("interrupt-lost", "an interrupt issued to a live process was never delivered",
                             {"cause": c, "victim": rec["victim"]})
        if self.use_agenda and drained:
            left = [h for h in self.heap if h[3] not in self.dead]
            if left:
                self.bad("triggered-never-took-effect",
                         "something that was triggered never took effect although the agenda drained",
                         [list(h) for h in left[:3]])
        for pid, (kind, value) in r.endinfo.items():
            p = r.procs[pid]
            if p is None or not p.triggered:
                self.bad("ended-process-not-triggered", "a finished process is not a triggered event", pid)
                continue
            if kind == "ret" and (p.ok is not True or p.value != value):
                self.bad("process-value-wrong", "a process's value is not its return value",
                         {"pid": pid, "value": r.cv(p.value), "want": value})
            if kind == "raise" and (p.ok is not False or not isinstance(p.value, BaseException)):
                self.bad("process-failure-wrong", "a process whose body raised is not a failed event", pid)
        return self.viol


# ---------------------------------------------------------------------------
# C05 closed form
# ---------------------------------------------------------------------------
def cond_closed_form(r):
    """Check every top-level condition a process waited on against the closed form recomputed
    from the observed leaf completions.  Returns (violations, stats)."""
    out = []
    stats = {"conds": 0, "nested": 0, "coincident": 0, "failed": 0, "empty": 0, "preprocessed": 0,
             "value_checks": 0, "ambiguous": 0, "partial_values": 0, "never": 0}
    INF = float("inf")
    waits = {}
    for i, e in enumerate(r.tape):
        if e[1] in ("got", "exc") and isinstance(e[4], str) and e[4][0] == "C":
            waits.setdefault(e[4], []).append((e, r.tape.steps[i]))

    def is_fail(o):
        return isinstance(o, tuple) and len(o) == 3 and o[0] == "exc"

    def solve(info):
        """-> (time, lower bound of the triggering step, failure|None, leaves in operand order,
        is-nested-decided, ambiguous).

        A leaf is processed at a step the probes observed.  A nested condition is processed at
        an unobservable step strictly after the step that triggered it (same simulated time), so
        it is ordered only against operands processed at or before its triggering step; when the
        outcome depends on an order the boundary cannot see the condition is *ambiguous* and
        nothing is asserted about it (the spec-kernel comparison decides those)."""
        mode, kids = info["mode"], info["kids"]
        leaves, comp, amb = [], [], False
        for k in kids:
            if isinstance(k, str):
                leaves.append(k)
                if k in r.pstep:
                    t, st, o = r.ptime[k], r.pstep[k], r.pout[k]
                    if st <= info["step"]:          # already processed at construction
                        t, st = info["now"], info["step"]
                    comp.append((t, st, o if is_fail(o) else None, False))
                else:
                    comp.append((INF, INF, None, False))
            else:
                t, st, f, sub, a = solve(k)
                amb = amb or a
                leaves.extend(sub)
                comp.append((t, st, f, True))
        if not kids:
            return info["now"], info["step"], None, leaves, amb

        def before(a, b):
            """a certainly takes effect (for this condition) before b"""
            if a[0] != b[0]:
                return a[0] < b[0]
            if a[3]:
                return False
            return a[1] <= b[1] if b[3] else a[1] < b[1]

        def first_of(cands):
            for c in cands:
                if all(c is o or before(c, o) for o in cands):
                    return c
            return None

        if mode == "any":
            tmin = min(c[0] for c in comp)
            cands = [c for c in comp if c[0] == tmin]
        else:
            fails = [c for c in comp if c[2] is not None and c[0] != INF]
            if fails:
                tmin = min(c[0] for c in fails)
                cands = [c for c in fails if c[0] == tmin]
            else:
                tmax = max(c[0] for c in comp)
                cands = None
                d = max((c for c in comp if c[0] == tmax), key=lambda c: c[1])
        if cands is not None:
            d = first_of(cands)
            if d is None:
                if len({c[2] for c in cands}) > 1:
                    amb = True
                d = min(cands, key=lambda c: c[1])
            if mode == "any" and tmin == INF:
                d = cands[0]
        return d[0], d[1], d[2], leaves, amb

    byl = {c["label"]: c for c in r.conds}
    nested = set()
    for c in r.conds:
        for k in c["kids"]:
            if not isinstance(k, str):
                nested.add(k["label"])
    for lab, info in byl.items():
        if lab in nested or lab not in waits:
            continue
        if info.get("reused_sub"):
            stats["staged_conditions"] = stats.get("staged_conditions", 0) + 1
            continue
        stats["conds"] += 1
        if any(not isinstance(k, str) for k in info["kids"]):
            stats["nested"] += 1
        if not info["kids"]:
            stats["empty"] += 1
        if any(info["pre"]):
            stats["preprocessed"] += 1
        t, s, f, leaves, amb = solve(info)
        if amb:
            stats["ambiguous"] += 1
        lt = [r.ptime[l] for l in leaves if l in r.ptime]
        if len(set(lt)) < len(lt):
            stats["coincident"] += 1
        for (w, wstep) in waits[lab]:
            wt, imm = w[0], w[6]
            if amb:
                continue
            if t == INF:
                out.append(("cond-fired-without-cause",
                            "a condition resumed its waiter although its predicate never held",
                            {"cond": lab, "resumed_at": wt, "mode": info["mode"]}))
                continue
            if not imm and wt != t:
                out.append(("cond-wrong-instant",
                            "a condition's waiter resumed at an instant other than the closed-form trigger time",
                            {"cond": lab, "expected": t, "resumed_at": wt, "mode": info["mode"]}))
                continue
            if f is not None:
                stats["failed"] += 1
                if w[1] != "exc" or tuple(w[5]) != tuple(f):
                    out.append(("cond-failure-not-forwarded",
                                "an operand failed before satisfaction but the condition did not fail with its exception",
                                {"cond": lab, "expected": f, "got": w[5]}))
                continue
            if w[1] != "got":
                out.append(("cond-spurious-failure", "a condition failed although no operand failed before satisfaction",
                            {"cond": lab, "got": w[5]}))
                continue
            if imm:
                continue
            # value = leaves processed before the step in which the condition itself is processed
            want = []
            for l in leaves:
                if l in r.pstep and r.pstep[l] < wstep:
                    want.append((l, r.pout[l]))
            got = w[5]
            stats["value_checks"] += 1
            if len(want) < len(leaves):
                stats["partial_values"] += 1
            if not (isinstance(got, tuple) and got[0] == "cv" and tuple(got[1]) == tuple(want)):
                out.append(("cond-value-wrong",
                            "a condition's value is not exactly the leaves processed by the time it is processed, in operand order",
                            {"cond": lab, "expected": want, "got": got}))
    for lab, info in byl.items():
        if lab not in nested and lab not in waits:
            stats["never"] += 1
    return out, stats


def spec_violation(real_runner, spec_runner):
    """[(mechanism, what, witness)] if the two tapes differ"""
    i = first_diff(real_runner.tape, spec_runner.tape)
    if i is None:
        return []
    a = real_runner.tape[i] if i < len(real_runner.tape) else None
    b = spec_runner.tape[i] if i < len(spec_runner.tape) else None
    return [("spec-divergence:" + diff_kind((i, a, b)),
             "the tape of the real kernel differs from the tape of the spec kernel (executable model of C01-C05)",
             {"index": i, "real": a, "spec": b, "context": [list(e) for e in real_runner.tape[max(0, i - 3):i]]})]


def bare_spec_violation(program):
    """the program without any probe callback (processes are events nobody has touched): real vs spec tape"""
    RealK.load()
    rr = run_on(RealK, program, bare=True)
    sr = run_on(speckernel.K, program, bare=True)
    v = spec_violation(rr, sr)
    return [(m.replace("spec-divergence:", "spec-divergence[no-probes]:"), w, x) for m, w, x in v], len(rr.tape)
