"""Scheduler harness shared by C12..C15 (and C08): builds one of the six schedulers with three
instance taps (arrival = put, service decision = send_packet call, departure = out.put) in one
action order, drives a workload and returns the log."""
from . import net as vnet

KINDS = ["SP", "WFQ", "VC", "DRR", "RR", "WRR"]


def class_map(name):
    if name == "identity":
        return lambda f: f
    if name == "shift":
        return lambda f: f + 10
    if name == "mod2":
        return lambda f: f % 2
    if name == "mod3":
        return lambda f: 100 + f % 3
    if name == "mixed":
        return lambda f: f if f % 2 else f"c{f}"          # class ids of different, mutually unorderable types
    raise ValueError(name)


def gen_config(rng, kind, flavour, nflows=None, cmap=None, base=None):
    nflows = nflows or rng.randint(1, 6)
    # flow ids: small ints, or large ints (outside CPython's small-int cache; the drivers build a fresh int
    # object per packet, so identity comparisons on flow ids fail where equality holds)
    pick = rng.choice([0, 0, 0, 70000])
    base = pick if base is None else base
    flows = [base + i for i in range(nflows)]
    if kind in ("RR", "WRR"):
        cmap = "identity"
    elif kind == "SP":
        cmap = cmap or rng.choice(["identity", "identity", "shift", "mod2"])     # only labels packet.priorities
    else:
        cmap = cmap or rng.choice(["identity", "identity", "shift", "mod2", "mod3", "mixed"])
    f2c = class_map(cmap)
    classes = []
    for f in flows:
        c = f2c(f)
        if c not in classes:
            classes.append(c)
    if flavour == "exact":
        rate = rng.choice([8192, 4096, 65536])
    else:
        rate = rng.choice([8000, 10000, 1234.5])
    cfg = {"kind": kind, "rate": rate, "flows": flows, "cmap": cmap, "classes": classes}
    if kind == "SP":
        if flavour == "float" and rng.random() < 0.4:
            cfg["table"] = {f: rng.choice([1.25, 1.5, 1.75, 2.5, 0.5, 3.0]) for f in flows}     # non-integer levels
        else:
            cfg["table"] = {f: rng.choice([1, 2, 3, 3, 5]) for f in flows}          # keyed by flow
    elif kind == "WFQ":
        cfg["table"] = {c: rng.choice([1, 1, 2, 3, 0.5, 2.5, 0.1, 0.2, 0.3, 0.7] if flavour == "float" else [1, 1, 2, 4, 0.5]) for c in classes}
        if flavour == "float" and rng.random() < 0.12:
            # tiny weights: the virtual time runs a million times faster than the clock (V passes 2**20 within
            # seconds of one busy period); the law is the same
            cfg["table"] = {c: w * rng.choice([1e-6, 5e-7]) for c, w in cfg["table"].items()}
    elif kind == "VC":
        cfg["table"] = {c: rng.choice([0.5, 1, 1, 2, 0.25]) for c in classes}
    elif kind == "DRR":
        cfg["table"] = {c: rng.choice([1, 1, 2, 3, 4, 5, 6]) for c in classes}
    elif kind == "WRR":
        cfg["table"] = {f: rng.choice([1, 1, 2, 3, 4, 6]) for f in flows}
    else:
        cfg["table"] = list(flows)
        if rng.random() < 0.3:
            rng.shuffle(cfg["table"])
    return cfg


def build(net, cfg):
    from onl.scheduler import SP, WFQ, VC, DRR, RR, WRR
    env = net.env
    k, rate, t = cfg["kind"], cfg["rate"], cfg["table"]
    f2c = class_map(cfg["cmap"])
    def key(a):
        # table keys are ints, or strings like "c2" (mixed-type class ids); a replayed case has them all as strings
        return a if isinstance(a, int) else (int(a) if a.lstrip("-").isdigit() else a)
    tbl = {key(a): b for a, b in t.items()} if isinstance(t, dict) else list(t)
    if k == "SP":
        if cfg.get("reused_table"):
            # the same dict object served an earlier experiment with other priorities and was edited in place since
            real = dict(tbl)
            vals = list(real.values())
            for i, f in enumerate(list(tbl)):
                tbl[f] = vals[(i + 1) % len(vals)] + (i % 2)
            SP(type(env)(), rate, tbl, flow2class=f2c)
            for f in real:
                tbl[f] = real[f]
        s = SP(env, rate, tbl, flow2class=f2c, debug=bool(cfg.get("debug")))
    elif k == "WFQ":
        s = WFQ(env, rate, tbl, flow2class=f2c, debug=bool(cfg.get("debug")))
    elif k == "VC":
        s = VC(env, rate, tbl, flow2class=f2c, debug=bool(cfg.get("debug")))
    elif k == "DRR":
        s = DRR(env, rate, tbl, flow2class=f2c, debug=bool(cfg.get("debug")))
    elif k == "RR":
        # (the round may be declared by any sequence: a tuple keeps its declaration order like a list)
        s = RR(env, rate, tuple(tbl) if cfg.get("table_as_tuple") else tbl, debug=bool(cfg.get("debug")))
    else:
        s = WRR(env, rate, tbl, debug=bool(cfg.get("debug")))
    return s, f2c, tbl


class Run:
    """one execution of one scheduler case"""

    def __init__(self, case, stats=None, monitor=None, snapshot=None, counters=True):
        self.case = case
        cfg = case["cfg"]
        self.net = net = vnet.Net()
        env = net.env
        self.sched, self.f2c, self.tbl = build(net, cfg)
        sched = self.sched
        self.sink = net.recorder("sink")
        sched.out = self.sink
        self.viol = []
        self.snap = []            # (seq, whatever snapshot() returned) at decision taps
        self.arr, self.dec, self.dep = [], [], []
        self.shadow_n = {f: 0 for f in cfg["flows"]}
        self.shadow_b = {f: 0 for f in cfg["flows"]}
        self.in_service = None
        self.counter_checks = 0
        tape, pk = net.tape, net.pk
        oput, osend, sput = sched.put, sched.send_packet, self.sink.put

        def put(p):
            u = pk.register(p)
            tape.rec("in", "s", u, p.size)
            self.arr.append((len(tape.ev) - 1, env.steps, env.now, u, p.flow_id, p.size))
            self.shadow_n[p.flow_id] += 1
            self.shadow_b[p.flow_id] += p.size
            oput(p)
            if counters:
                self.check_counters("put")

        def send_packet(p):
            u = pk.register(p)
            tape.rec("decide", "s", u, p.size)
            self.dec.append((len(tape.ev) - 1, env.steps, env.now, u, p.flow_id, p.size))
            if snapshot:
                self.snap.append((len(tape.ev) - 1, snapshot(sched)))
            self.in_service = (p, env.now)
            return osend(p)

        def out(p):
            u = pk.known(p)
            self.dep.append((len(tape.ev), env.steps, env.now, u, p.flow_id, p.size))
            if p.flow_id in self.shadow_n:
                self.shadow_n[p.flow_id] -= 1
                self.shadow_b[p.flow_id] -= p.size
            self.just_left = (p, env.now)
            self.in_service = None
            sput(p)
            if counters:
                self.check_counters("out")
            k = len(self.dep) - 1
            if echo and echo.get(str(k)) and self.echoed < 3 * len(case["arrivals"]):
                # an ack-clocked peer: the next hop hands the next packet of that flow to the scheduler at once,
                # from inside its own put()
                self.echoed += 1
                q = net.make_packet(p.flow_id, p.size, 100000 + self.echoed, src="echo")
                sched.put(q)

        self.just_left = None
        echo = case.get("echo")
        self.echoed = 0
        sched.put, sched.send_packet, self.sink.put = put, send_packet, out
        if case.get("out_store"):
            # the next hop is a library Store drained by a process (a legal receiver: anything with put())
            from onl.sim import Store
            st = Store(env)
            st_put = st.put

            def store_put(p):
                out(p)
                return st_put(p)
            st.put = store_put
            sched.out = st

            def drain():
                while True:
                    yield st.get()
            env.process(drain())
        if counters:
            env.post_hooks.append(lambda e: self.check_counters("step"))
        elif case.get("poll"):
            # an observer that merely reads the public per-flow counters of every configured flow after every step
            def poll(e):
                for f in cfg["flows"]:
                    sched.size(f)
                    sched.byte_size(f)
            env.post_hooks.append(poll)
        # a second, independent scheduler of the same kind and tables lives in the same environment (the ports of
        # one switch): state that is accidentally shared between instances shows up in the primary one
        self.twin = None
        if case.get("twin"):
            self.twin, _, _ = build(net, cfg)
            self.twin.out = net.recorder("twin-sink")
            net.drivers(self.twin, case["twin"])
        # the packets that leave go on into a second scheduler with another rate (the same Packet objects cross both)
        self.ds_tx = []
        self.ds_rate = None
        if case.get("downstream"):
            ds_cfg = dict(cfg, kind=case["downstream"]["kind"], rate=case["downstream"]["rate"])
            if ds_cfg["kind"] in ("RR",):
                ds_cfg["table"] = list(cfg["flows"])
            elif ds_cfg["kind"] in ("SP", "WRR"):
                ds_cfg["table"] = {f: 1 + (i % 3) for i, f in enumerate(cfg["flows"])}
            else:
                ds_cfg["table"] = {c: 1 + (i % 2) for i, c in enumerate(cfg["classes"])}
            ds, _, _ = build(net, ds_cfg)
            self.ds_rate = ds_cfg["rate"]
            ds_send = ds.send_packet
            started = {}

            def ds_send_packet(p):
                started[id(p)] = env.now
                return ds_send(p)

            class DsOut:
                def put(_, p):
                    self.ds_tx.append((started.pop(id(p), None), env.now, p.size))
            ds.send_packet = ds_send_packet
            ds.out = DsOut()
            fwd = self.sink.put

            def forward(p):
                fwd(p)
                ds.put(p)
            self.sink.put = forward
            if case.get("out_store"):
                pass
        self.mon = None
        if monitor:
            from onl.scheduler import Monitor
            for f in cfg["flows"]:
                sched.size(f)                  # make every configured flow known from the start
            self.mon_dist = vnet.Script(monitor["samples"], net, "sample")
            self.mon = Monitor(env, sched, self.mon_dist, service_included=monitor["included"])
        net.drivers(sched, case["arrivals"])

    def bad(self, m, what, wit=None):
        if len(self.viol) < 4:
            self.viol.append((m, what, wit))

    def check_counters(self, where):
        s = self.sched
        self.counter_checks += 1
        tot = 0
        for f in self.shadow_n:
            n, b = s.size(f), s.byte_size(f)
            tot += self.shadow_n[f]
            if n != self.shadow_n[f] or b != self.shadow_b[f]:
                self.bad("flow-counters-wrong", "size()/byte_size() differ from the packets of that flow waiting or in transmission",
                         {"flow": f, "size": n, "byte_size": b, "expected": [self.shadow_n[f], self.shadow_b[f]], "where": where})
                return
        if s.total_packets != tot:
            self.bad("total-packets-wrong", "total_packets differs from the number of packets waiting or in transmission",
                     {"total_packets": s.total_packets, "expected": tot, "where": where})
        if where == "step":
            pis = s.packet_in_service
            now = self.net.env.now
            ok = False
            if self.in_service is not None:
                ok = pis is self.in_service[0] or (pis is None and self.in_service[1] == now)
            else:
                ok = pis is None or (self.just_left is not None and pis is self.just_left[0] and self.just_left[1] == now)
            if not ok:
                self.bad("packet-in-service-wrong", "packet_in_service is not the packet whose transmission was decided and has not ended",
                         {"now": now, "reported": repr(pis), "expected": repr(self.in_service and self.in_service[0])})

    def go(self, horizon=None):
        err = self.net.run(until=horizon)
        if err:
            self.bad(err, "the run raised", self.net.errors[-1] if self.net.errors else err)
        return self


def count_features(ctx, run):
    """evidence: how often the less common situations of the scheduler harness occurred in this run"""
    case = run.case
    ctx.count("echoed_arrivals_inside_next_hop_put", run.echoed)
    ctx.count("late_arrivals_inside_an_instant", sum(1 for a in case["arrivals"] if a.get("late")))
    if case.get("out_store"):
        ctx.count("store_as_next_hop_cases")
    ctx.count("payload_length_differs_from_size", sum(1 for a in case["arrivals"] if "payload_len" in a))
    if case["cfg"]["cmap"] == "mixed":
        ctx.count("mixed_type_class_id_cases")
    if case["cfg"]["kind"] == "WFQ" and min(case["cfg"]["table"].values()) < 1e-3:
        ctx.count("tiny_weight_cases")
    if case.get("twin"):
        ctx.count("twin_scheduler_cases")
    if case.get("poll"):
        ctx.count("counter_polling_observer_cases")
    if case["cfg"].get("reused_table"):
        ctx.count("priority_table_object_reused_cases")
    if case.get("downstream"):
        ctx.count("second_scheduler_downstream_cases")
    if case["cfg"].get("debug"):
        ctx.count("debug_tracing_cases")
    if case["cfg"].get("table_as_tuple"):
        ctx.count("rr_table_as_tuple_cases")


def gen_case(rng, kind, flavour=None, n=None, static=False, cmap=None, nflows=None, sizes=None):
    flavour = flavour or ("exact" if rng.random() < 0.7 else "float")
    cfg = gen_config(rng, kind, flavour, nflows=nflows, cmap=cmap)
    if sizes is None:
        if flavour == "exact":
            sizes = rng.choice([[128], [128, 256], [64, 512, 1024], [512, 2048], [256, 256, 1024]])
        else:
            sizes = rng.choice([[100], [100, 300], [40, 700, 1500], [1000, 3000]])
    n = n or rng.randint(3, 70)
    arr = vnet.gen_arrivals(rng, len(cfg["flows"]), flavour, n, sizes, None, burst_p=0.5, flows=cfg["flows"])
    # (packets keep their random "age": creation time != arrival time at the scheduler)
    if static:
        for a in arr:
            a["t"] = 0
            a["drv"] = 0
    elif cfg["rate"] and rng.random() < 0.5:
        # arrivals exactly at transmission ends
        tx = sizes[0] * 8.0 / cfg["rate"]
        t = 0
        for a in arr:
            a["t"] = t
            t += rng.choice([0, 0, tx, tx, 2 * tx, tx / 2, 5 * tx])
    if rng.random() < 0.3 and not static:
        # long idle gaps
        shift = 0
        for a in arr:
            if rng.random() < 0.1:
                shift += 64
            a["t"] += shift
    if not static and rng.random() < 0.3:
        for a in arr:
            if rng.random() < 0.3:
                a["late"] = rng.choice([1, 1, 2, 3, 5])      # arrives later inside its instant (after the decisions taken at it)
    case = {"cfg": cfg, "flavour": flavour, "arrivals": arr, "static": static}
    if kind == "SP" and rng.random() < 0.2:
        cfg["reused_table"] = True
    if rng.random() < 0.15:
        cfg["debug"] = True             # tracing switched on changes nothing (its output is captured)
    if kind == "RR" and rng.random() < 0.3:
        cfg["table_as_tuple"] = True
    if rng.random() < 0.3:
        case["poll"] = True
    if rng.random() < 0.15:
        case["out_store"] = True
    elif rng.random() < 0.15:
        case["downstream"] = {"kind": rng.choice(KINDS), "rate": cfg["rate"] * rng.choice([0.25, 0.5, 2, 4])}
    if rng.random() < 0.2:
        case["echo"] = {str(k): True for k in range(3 * len(arr)) if rng.random() < 0.35}
    if rng.random() < 0.3:
        tw = vnet.gen_arrivals(rng, len(cfg["flows"]), flavour, rng.randint(3, 40), sizes, None, burst_p=0.5, flows=cfg["flows"])
        case["twin"] = tw
    if rng.random() < 0.15:
        # packets carrying application data: a scheduler serves and accounts the packet's size, not len(payload)
        for a in arr:
            if not a.get("again") and rng.random() < 0.7:
                a["payload_len"] = rng.choice([0, 1, max(1, int(a["size"]) // 2), 2 * int(a["size"]) + 3, 4000])
    return case
