"""One shard of one check, in its own interpreter process.

usage: python -m vlib.worker <PID> <tier> <seed> <shard> <nshards> <outfile> [budget_s]
"""
import faulthandler
import importlib
import json
import os
import sys
import traceback

from . import common


def main(argv):
    pid, tier, seed, shard, nshards, out = argv[:6]
    budget = float(argv[6]) if len(argv) > 6 else None
    seed, shard, nshards = int(seed), int(shard), int(nshards)
    mod = importlib.import_module("checks." + pid.lower())
    plan = mod.plan(tier)
    # I10: the watchdog lives outside the simulated code
    faulthandler.enable()
    faulthandler.dump_traceback_later(plan.get("timeout", 600), exit=True)
    common.import_repo()
    ctx = common.Ctx(pid, tier, seed, shard, nshards)
    ctx.budget_s = budget
    obs = common.LineObserver(getattr(mod, "ANCHORS", []))
    if shard == 0:
        obs.start()
    real_stdout = sys.stdout
    crashed = None

    def emergency():
        # the code under test keeps swallowing the budget exception: report what was recorded and leave
        res = ctx.result()
        res["lines"] = {}
        res["crashed"] = "case CPU budget fired repeatedly; worker left through the emergency exit"
        with open(out, "w") as f:
            json.dump(res, f)
        os._exit(0)
    ctx.emergency = emergency

    # soft wall-clock deadline shortly before the hard watchdog: what the monitors recorded so far is reported
    # (violations stay violations; without any the shard counts as crashed = inconclusive), instead of being lost
    import signal

    def soft_deadline(signum, frame):
        res = ctx.result()
        res["lines"] = {}
        res["crashed"] = "soft wall-clock deadline of the shard reached; partial results"
        with open(out, "w") as f:
            json.dump(res, f)
        os._exit(0)
    signal.signal(signal.SIGALRM, soft_deadline)
    signal.alarm(max(30, int(plan.get("timeout", 600) * 0.85)))
    try:
        with common.Quiet():
            mod.run_shard(ctx)
    except BaseException as e:  # a harness crash is inconclusive, never "held"
        crashed = "".join(traceback.format_exception(type(e), e, e.__traceback__))[-4000:]
    obs.stop()
    sys.stdout = real_stdout
    res = ctx.result()
    res["lines"] = obs.result()
    res["crashed"] = crashed
    with open(out, "w") as f:
        json.dump(res, f)
    return 0


if __name__ == "__main__":
    sys.exit(main(sys.argv[1:]))
