"""Prints digests of kernel-program tapes and network-scenario traces produced in THIS interpreter
process (C03 runs it under several PYTHONHASHSEED values and compares).

usage: python -m vlib.digest <seed> <shard> <n>
"""
import hashlib
import json
import random
import sys

from . import common


def main(argv):
    seed, shard, n = int(argv[0]), int(argv[1]), int(argv[2])
    common.import_repo()
    from . import kern
    from checks import c03
    K = kern.RealK.load()
    out = {"kernel": [], "net": [], "net_names": []}
    with common.Quiet():
        for i in range(n):
            rng = random.Random(f"C03-digest:{seed}:{shard}:{i}")
            prog = kern.gen_program(rng, c03.PROFILE)
            r = kern.run_on(K, prog)
            out["kernel"].append(hashlib.sha256(
                json.dumps(common.canon(list(r.tape)), sort_keys=True).encode()).hexdigest()[:20])
        try:
            from . import netscen
        except ImportError:
            netscen = None
        if netscen is not None:
            for i in range(max(24, n // 4)):
                name, trace = netscen.scenario(random.Random(f"C03-net:{seed}:{shard}:{i}"))
                out["net"].append(hashlib.sha256(
                    json.dumps(common.canon(trace), sort_keys=True).encode()).hexdigest()[:20])
                out["net_names"].append(name)
            for i in range(max(150, n)):
                name, trace = netscen.scenario(random.Random(f"C03-ties:{seed}:{shard}:{i}"), None, ("wfq-ties",))
                out["net"].append(hashlib.sha256(
                    json.dumps(common.canon(trace), sort_keys=True).encode()).hexdigest()[:20])
                out["net_names"].append(name)
    print(json.dumps(out))


if __name__ == "__main__":
    main(sys.argv[1:])
