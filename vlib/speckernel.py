"""I7 -- executable model of the kernel semantics *as stated by C01..C05*.

Written from the property statements, not from onl/sim.  It offers the small API the
program interpreter (vlib.kern.Runner) needs, so the same interpreted program can run on
the real kernel and on this model and the two tapes can be compared entry by entry.

Agenda order  : (due time, URGENT before NORMAL, trigger order)              [C01]
Event outcome : every waiter registered at processing time, once, in order;
                an unhandled failure escapes from step()/run()                [C02]
run(until)    : number -> stop is an URGENT occurrence at exactly t;
                event  -> return right after the step that processes it       [C03]
Interrupts    : URGENT, discarded for finished victims, detach from target   [C04]
Conditions    : count processed operands, fail on operand failure, value =
                leaves processed when the condition itself is processed      [C05]
"""
import heapq

URGENT, NORMAL = 0, 1
_PENDING = object()
Infinity = float("inf")


class Interrupt(Exception):
    @property
    def cause(self):
        return self.args[0]


class EmptySchedule(Exception):
    pass


class Event:
    def __init__(self, env):
        self.env = env
        self.callbacks = []
        self._value = _PENDING
        self._ok = None
        self._handled = False

    @property
    def triggered(self):
        return self._value is not _PENDING

    @property
    def processed(self):
        return self.callbacks is None

    @property
    def ok(self):
        return self._ok

    @property
    def value(self):
        if self._value is _PENDING:
            raise AttributeError("value not yet available")
        return self._value

    def succeed(self, value=None):
        if self._value is not _PENDING:
            raise RuntimeError("already triggered")
        self._ok, self._value = True, value
        self.env._push(self, NORMAL, self.env._now)
        return self

    def fail(self, exc):
        if self._value is not _PENDING:
            raise RuntimeError("already triggered")
        if not isinstance(exc, BaseException):
            raise ValueError("not an exception")
        self._ok, self._value = False, exc
        self.env._push(self, NORMAL, self.env._now)
        return self

    def trigger(self, event):
        """chaining callback (src.callbacks.append(dst.trigger)): take over the outcome of `event`; a failure taken
        over is this event's own failure and has to be handled by this event's own waiters"""
        self._ok, self._value = event._ok, event._value
        self.env._push(self, NORMAL, self.env._now)

    def __and__(self, other):
        return Condition(self.env, "all", [self, other])

    def __or__(self, other):
        return Condition(self.env, "any", [self, other])


class Timeout(Event):
    def __init__(self, env, delay, value=None):
        if delay < 0:
            raise ValueError("negative delay")
        Event.__init__(self, env)
        self._ok, self._value = True, value
        env._push(self, NORMAL, env._now + delay)


class Process(Event):
    def __init__(self, env, gen):
        if not hasattr(gen, "throw"):
            raise ValueError("not a generator")
        Event.__init__(self, env)
        self._gen = gen
        start = Event(env)
        start._ok, start._value = True, None
        start.callbacks.append(self._resume)
        self._target = start
        env._push(start, URGENT, env._now)

    @property
    def is_alive(self):
        return self._value is _PENDING

    @property
    def target(self):
        return self._target

    def interrupt(self, cause=None):
        if self._value is not _PENDING:
            raise RuntimeError("terminated process cannot be interrupted")
        if self is self.env._active:
            raise RuntimeError("a process cannot interrupt itself")
        it = Event(self.env)
        it._ok, it._value, it._handled = False, Interrupt(cause), True
        it.callbacks.append(self._deliver)
        self.env._push(it, URGENT, self.env._now)

    def _deliver(self, it):
        if self._value is not _PENDING:
            return                              # pending interrupts of a dead process vanish
        self._target.callbacks.remove(self._resume)   # no longer waiting for the old target
        self._resume(it)

    def _resume(self, ev):
        env = self.env
        env._active = self
        while True:
            try:
                if ev._ok:
                    nxt = self._gen.send(ev._value)
                else:
                    ev._handled = True
                    exc = type(ev._value)(*ev._value.args)
                    exc.__cause__ = ev._value
                    nxt = self._gen.throw(exc)
            except StopIteration as stop:
                self._ok = True
                self._value = stop.args[0] if stop.args else None
                env._push(self, NORMAL, env._now)
                nxt = None
                break
            except BaseException as e:
                self._ok, self._value = False, e
                env._push(self, NORMAL, env._now)
                nxt = None
                break
            if nxt.callbacks is not None:
                nxt.callbacks.append(self._resume)
                break
            ev = nxt                             # already processed: continue at once
        self._target = nxt
        env._active = None


class ConditionValue:
    def __init__(self):
        self.events = []

    def keys(self):
        return iter(self.events)

    def values(self):
        return (e._value for e in self.events)

    def items(self):
        return ((e, e._value) for e in self.events)

    def todict(self):
        return {e: e._value for e in self.events}

    def __iter__(self):
        return self.keys()

    def __contains__(self, e):
        return e in self.events

    def __getitem__(self, e):
        if e not in self.events:
            raise KeyError(e)
        return e._value

    def __eq__(self, other):
        if isinstance(other, ConditionValue):
            return self.events == other.events
        if isinstance(other, dict):
            return self.todict() == other
        return NotImplemented


class Condition(Event):
    def __init__(self, env, mode, events):
        Event.__init__(self, env)
        self._mode = mode
        self._events = tuple(events)
        self._n = 0
        if not self._events:
            self.succeed(ConditionValue())
            return
        for e in self._events:
            if e.env is not env:
                raise ValueError("events of different environments")
        for e in self._events:
            if e.callbacks is None:
                self._operand_done(e)
            else:
                e.callbacks.append(self._operand_done)
        self.callbacks.append(self._collect)

    def _operand_done(self, e):
        if self._value is not _PENDING:
            return
        self._n += 1
        if not e._ok:
            e._handled = True
            self.fail(e._value)
        elif (self._mode == "all" and self._n == len(self._events)) or \
                (self._mode == "any" and self._n >= 1):
            self.succeed()

    def _leaves(self, acc):
        for e in self._events:
            if isinstance(e, Condition):
                e._leaves(acc)
            elif e.callbacks is None:
                acc.append(e)

    def _detach(self):
        for e in self._events:
            if e.callbacks and self._operand_done in e.callbacks:
                e.callbacks.remove(self._operand_done)
            if isinstance(e, Condition):
                e._detach()

    def _collect(self, _):
        self._detach()
        if self._ok:
            self._value = ConditionValue()
            self._leaves(self._value.events)


class AllOf(Condition):
    def __init__(self, env, events):
        Condition.__init__(self, env, "all", events)


class AnyOf(Condition):
    def __init__(self, env, events):
        Condition.__init__(self, env, "any", events)


class Environment:
    def __init__(self, initial_time=0):
        self._now = initial_time
        self._agenda = []
        self._seq = 0
        self._active = None

    @property
    def now(self):
        return self._now

    @property
    def active_process(self):
        return self._active

    def _push(self, ev, cls, due):
        self._seq += 1
        heapq.heappush(self._agenda, (due, cls, self._seq, ev))

    def event(self):
        return Event(self)

    def timeout(self, delay=0, value=None):
        return Timeout(self, delay, value)

    def process(self, gen):
        return Process(self, gen)

    def all_of(self, events):
        return AllOf(self, events)

    def any_of(self, events):
        return AnyOf(self, events)

    def peek(self):
        return self._agenda[0][0] if self._agenda else Infinity

    def step(self):
        if not self._agenda:
            raise EmptySchedule()
        self._now, _, _, ev = heapq.heappop(self._agenda)
        cbs, ev.callbacks = ev.callbacks, None
        for cb in cbs:
            cb(ev)
        if ev._ok is False and not ev._handled:
            exc = type(ev._value)(*ev._value.args)
            exc.__cause__ = ev._value
            raise exc

    def run(self, until=None):
        stop = None
        if until is not None:
            if isinstance(until, Event):
                if until.callbacks is None:
                    return until.value
                stop = until
            else:
                at = until if isinstance(until, int) else float(until)
                if at <= self._now:
                    raise ValueError("until must be > now")
                stop = Event(self)
                stop._ok, stop._value = True, None
                self._push(stop, URGENT, at)          # exactly t, ahead of ordinary events
        while True:
            try:
                self.step()
            except EmptySchedule:
                if stop is not None:
                    raise RuntimeError("no scheduled events left but until event was not triggered")
                return None
            if stop is not None and stop.callbacks is None:
                if stop._ok:
                    return stop._value
                raise stop._value


class K:
    """Namespace handed to the interpreter."""
    name = "spec"
    Environment = Environment
    Interrupt = Interrupt
    EmptySchedule = EmptySchedule
    Event = Event
    Timeout = Timeout
