"""Network scenarios whose traces C03 compares across interpreter processes and PYTHONHASHSEED
values: class ids that are strings (hash-seed dependent set/dict order), float weights, the
global `random` module seeded by the harness (wire loss, RED), fat-tree flow generation."""
import random

from . import net as vnet


def scenario(rng, stops=None, kinds=("wfq-str", "drr-str", "sp", "port-wire-loss", "red", "fattree", "hub", "switch", "sched-monitor")):
    """stops: None = one uninterrupted run; a list = the run is split by run(until=t) / step() calls
    (["num", t] / ["steps", n]); the trace must not depend on it (C03)"""
    kind = rng.choice(list(kinds))
    random.seed(rng.randrange(1 << 30))
    net = vnet.Net()
    env = net.env
    trace = []

    class Sink:
        def put(self, p):
            trace.append((env.now, str(p.flow_id), p.packet_id, p.size))

    sink = Sink()
    horizon = None
    mon = None
    if kind == "sched-monitor":
        # a scheduler watched by a Monitor that samples periodically up to a horizon well after the traffic has ended:
        # the samples are part of the observable trace
        from onl.scheduler import DRR, WFQ, SP, Monitor
        which = rng.choice(["DRR", "WFQ", "SP"])
        tbl = {f: rng.choice([1, 2, 3]) for f in range(3)}
        s = {"DRR": DRR, "WFQ": WFQ, "SP": SP}[which](env, 8000.0, tbl)
        s.out = sink
        arr = vnet.gen_arrivals(rng, 3, "float", rng.randint(5, 30), [100, 333, 1000], None, burst_p=0.5)
        for a in arr:
            a["age"] = 0
        net.drivers(s, arr)
        step_ = rng.choice([0.37, 0.5, 1.13])
        mon = Monitor(env, s, lambda: step_, service_included=rng.random() < 0.5)
        horizon = max(a["t"] for a in arr) + rng.choice([20, 40])
    elif kind == "wfq-ties":
        # WFQ with string class ids, non-dyadic weights and equal-sized packets arriving in bursts on an integer grid:
        # many finish stamps are equal up to an ulp, so any arithmetic that depends on set / dict iteration order
        # (hence on the string hash seed) flips a service decision
        from onl.scheduler import WFQ
        names = ["alpha", "beta", "gamma", "delta", "eps", "zeta"][: rng.randint(3, 6)]
        w = {n: rng.choice([0.1, 0.3, 0.7, 0.2, 0.6]) for n in names}
        s = WFQ(env, 8000.0, w, flow2class=lambda f: names[f % len(names)])
        s.out = sink
        arr, t = [], 0
        for _ in range(rng.randint(20, 60)):
            t += rng.choice([0, 0, 0, 1, 2])
            arr.append({"t": t, "flow": rng.randrange(len(names)), "size": 1000, "age": 0})
        net.drivers(s, arr)
    elif kind in ("wfq-str", "drr-str", "sp"):
        from onl.scheduler import WFQ, DRR, SP
        names = ["alpha", "beta", "gamma", "delta", "eps"][: rng.randint(2, 5)]
        f2c = lambda f: names[f % len(names)]
        if kind == "wfq-str":
            s = WFQ(env, 8000.0, {n: rng.choice([0.1, 0.3, 0.7, 1.1, 2.3]) for n in names}, flow2class=f2c)
        elif kind == "drr-str":
            s = DRR(env, 8000.0, {n: rng.choice([1, 2, 3]) for n in names}, flow2class=f2c)
        else:
            s = SP(env, 8000.0, {f: rng.choice([1, 2, 3]) for f in range(6)})
        s.out = sink
        arr = vnet.gen_arrivals(rng, 6, "float", rng.randint(10, 60), [100, 333, 1000], None, burst_p=0.5)
        for a in arr:
            a["age"] = 0
        net.drivers(s, arr)
    elif kind == "hub":
        # stations with string ids on a hub; every station forwards what it hears into one shared
        # tail-drop uplink, so the order in which the hub repeats a packet decides who is dropped
        from onl.netdev import Hub, Port
        names = ["alice", "bob", "carol", "dave", "erin", "frank"][: rng.randint(3, 6)]
        uplink = Port(env, 8000.0, rng.choice([2, 3, 4]), False, "uplink")
        uplink.out = sink

        class Station:
            def __init__(self, name):
                self.element_id = name
                self.out = None

            def put(self, p):
                trace.append((env.now, "rx", self.element_id, p.packet_id))
                from onl.packet import Packet
                uplink.put(Packet(env.now, 100, p.packet_id, src=self.element_id, flow_id=names.index(self.element_id)))

        stations = [Station(n) for n in names]
        hub = Hub(env, stations)

        def talker():
            from onl.packet import Packet
            for i in range(rng.randint(3, 10)):
                yield env.timeout(rng.choice([0, 0.05, 0.3]))
                hub.put(Packet(env.now, 100, i, src=rng.choice(names), flow_id=0))
        env.process(talker())
    elif kind == "switch":
        from onl.netdev import FairPacketSwitch
        server = rng.choice(["WFQ", "DRR", "SP", "VirtualClock"])
        nfl = rng.randint(2, 5)
        sw = FairPacketSwitch(env, 2, 8000.0, rng.choice([3, 1000]), {f: rng.choice([1, 2, 3]) for f in range(nfl)}, server, element_id="sw")
        sw.demux.fib = {f: f % 2 for f in range(nfl)}
        for pt in sw.ports:
            pt.out = sink
        arr = vnet.gen_arrivals(rng, nfl, "float", rng.randint(10, 50), [100, 400], None, burst_p=0.5)
        for a in arr:
            a["age"] = 0
        net.drivers(sw, arr)
    elif kind == "port-wire-loss":
        from onl.netdev import Port, Wire
        p = Port(env, 8000.0, rng.choice([None, 5, 10]), False, "p")
        w = Wire(env, lambda: random.expovariate(3.0), loss_rate=rng.choice([0.1, 0.3]))
        p.out = w
        w.out = sink
        arr = vnet.gen_arrivals(rng, 3, "float", rng.randint(20, 80), [100, 500], None, burst_p=0.4)
        net.drivers(p, arr)
    elif kind == "red":
        from onl.netdev.red_port import REDPort
        p = REDPort(env, 8000.0, 6, 2, 0.5, "r", 10, weight_factor=2)
        p.out = sink
        arr = vnet.gen_arrivals(rng, 2, "float", rng.randint(40, 120), [100], None, burst_p=0.6)
        net.drivers(p, arr)
    else:
        from onl.topo import FatTree
        ft = FatTree(rng.choice([2, 4]))
        flows = ft.generate_flows(rng.randint(2, 10))
        ft.generate_fib(flows, tcp=True)
        for f, fl in flows.items():
            trace.append((0, "path", f, tuple(fl.path)))
        for n in sorted(ft.topo.nodes()):
            trace.append((0, "fib", n, tuple(sorted(ft.topo.nodes[n]["flow_to_port"].items()))))
        return kind, trace
    if stops:
        for st in stops:
            if env.peek() == float("inf"):
                break
            if horizon is not None and st[0] == "num" and st[1] >= horizon:
                continue
            if st[0] == "num":
                if st[1] > env.now:
                    err = net.run(until=st[1])
                    if err:
                        trace.append(("end", err))
                        return kind, trace
                    if env.now != st[1]:
                        trace.append(("stop-at-wrong-time", st[1], env.now))
            else:
                for _ in range(st[1]):
                    if env.peek() == float("inf") or (horizon is not None and env.peek() >= horizon):
                        break
                    env.step()
    if horizon is not None:
        err = net.run(until=horizon) if env.now < horizon else None
        for f in sorted(mon.sizes):
            trace.append(("monitor", f, len(mon.sizes[f]), tuple(mon.sizes[f][-5:]), tuple(mon.byte_sizes[f][-5:])))
    else:
        err = net.run()
    trace.append(("end", err))
    return kind, trace
