"""Network scenarios whose traces C03 compares across interpreter processes and PYTHONHASHSEED
values: class ids that are strings (hash-seed dependent set/dict order), float weights, the
global `random` module seeded by the harness (wire loss, RED), fat-tree flow generation."""
import random

from . import net as vnet


def scenario(rng):
    kind = rng.choice(["wfq-str", "drr-str", "sp", "port-wire-loss", "red", "fattree"])
    random.seed(rng.randrange(1 << 30))
    net = vnet.Net()
    env = net.env
    trace = []

    class Sink:
        def put(self, p):
            trace.append((env.now, str(p.flow_id), p.packet_id, p.size))

    sink = Sink()
    if kind in ("wfq-str", "drr-str", "sp"):
        from onl.scheduler import WFQ, DRR, SP
        names = ["alpha", "beta", "gamma", "delta", "eps"][: rng.randint(2, 5)]
        f2c = lambda f: names[f % len(names)]
        if kind == "wfq-str":
            s = WFQ(env, 8000.0, {n: rng.choice([0.1, 0.3, 0.7, 1.1, 2.3]) for n in names}, flow2class=f2c)
        elif kind == "drr-str":
            s = DRR(env, 8000.0, {n: rng.choice([1, 2, 3]) for n in names}, flow2class=f2c)
        else:
            s = SP(env, 8000.0, {f: rng.choice([1, 2, 3]) for f in range(6)})
        s.out = sink
        arr = vnet.gen_arrivals(rng, 6, "float", rng.randint(10, 60), [100, 333, 1000], None, burst_p=0.5)
        for a in arr:
            a["age"] = 0
        net.drivers(s, arr)
    elif kind == "port-wire-loss":
        from onl.netdev import Port, Wire
        p = Port(env, 8000.0, rng.choice([None, 5, 10]), False, "p")
        w = Wire(env, lambda: random.expovariate(3.0), loss_rate=rng.choice([0.1, 0.3]))
        p.out = w
        w.out = sink
        arr = vnet.gen_arrivals(rng, 3, "float", rng.randint(20, 80), [100, 500], None, burst_p=0.4)
        net.drivers(p, arr)
    elif kind == "red":
        from onl.netdev.red_port import REDPort
        p = REDPort(env, 8000.0, 6, 2, 0.5, "r", 10, weight_factor=2)
        p.out = sink
        arr = vnet.gen_arrivals(rng, 2, "float", rng.randint(40, 120), [100], None, burst_p=0.6)
        net.drivers(p, arr)
    else:
        from onl.topo import FatTree
        ft = FatTree(rng.choice([2, 4]))
        flows = ft.generate_flows(rng.randint(2, 10))
        ft.generate_fib(flows, tcp=True)
        for f, fl in flows.items():
            trace.append((0, "path", f, tuple(fl.path)))
        for n in sorted(ft.topo.nodes()):
            trace.append((0, "fib", n, tuple(sorted(ft.topo.nodes[n]["flow_to_port"].items()))))
        return kind, trace
    err = net.run()
    trace.append(("end", err))
    return kind, trace
