"""Shared machinery of the runtime-monitoring checks (DESIGN.md sections 2 and 3).

A *check* is a module ``checks/cXX.py`` exposing

    PID      property id ("C01")
    LEVEL    evidence level ("exploration" | "fault_enumeration")
    RULE     text: how cases are generated and what makes one non-trivial
    ANCHORS  repository files whose executed lines are reported
    FLOORS   {tier: {counter: minimum}} -- coverage floor; missing it = inconclusive
    plan(tier) -> {"shards": n, "timeout": seconds}
    run_shard(ctx) -- executes the shard's cases, reporting through ``ctx``
    replay(ctx, case) -- re-executes one recorded case (optional)

The driver (``/verif/check``) runs the shards as separate interpreter processes
(``vlib.worker``), merges what the monitors counted, classifies violations against
``known_findings.json`` and writes ``evidence/<id>.json``.
"""
import collections
import hashlib
import io
import json
import os
import random
import signal
import sys
import time

VERIF = os.path.dirname(os.path.dirname(os.path.abspath(__file__)))
REPO = os.path.realpath(os.environ.get("VERIF_REPO", "/repo"))
PY = "/venv/bin/python"
WORK = os.path.join(VERIF, ".work")


def import_repo():
    """Import ``onl`` from the working tree under test and nothing else."""
    if sys.path[0] != REPO:
        sys.path.insert(0, REPO)
    import onl
    got = os.path.realpath(onl.__file__)
    if not got.startswith(REPO + os.sep):
        raise RuntimeError(f"onl imported from {got}, expected under {REPO}")
    return onl


def canon(x):
    """JSON-able canonical form (no object ids)."""
    if isinstance(x, (str, int, bool)) or x is None:
        return x
    if isinstance(x, float):
        return x
    if isinstance(x, (list, tuple)):
        return [canon(i) for i in x]
    if isinstance(x, dict):
        return {str(k): canon(v) for k, v in x.items()}
    if isinstance(x, (set, frozenset)):
        return sorted((canon(i) for i in x), key=repr)
    if isinstance(x, BaseException):
        return {"exc": type(x).__name__, "args": canon(x.args)}
    return repr(x)


def case_hash(case):
    s = json.dumps(canon(case), sort_keys=True, default=repr)
    return hashlib.sha1(s.encode()).hexdigest()[:16]


class CaseCpuBudget(BaseException):
    """raised from the SIGVTALRM handler armed by Ctx.cases(): one case burnt CASE_CPU_BUDGET_S seconds of *CPU
    time of this process* (ITIMER_VIRTUAL; independent of machine load), four to five orders of magnitude more than
    a legitimate case"""


CASE_CPU_BUDGET_S = 150


def _library_frame(frame):
    """innermost frame of the code under test in the interrupted stack, as 'file.py:function'"""
    f = frame
    while f is not None:
        fn = os.path.realpath(f.f_code.co_filename)
        if fn.startswith(REPO + os.sep):
            return fn[len(REPO) + 1:].replace("onl/", "", 1) + ":" + f.f_code.co_name
        f = f.f_back
    return None


class Ctx:
    """What a shard reports through.  Everything in here is measured."""

    MAX_WITNESS = 2

    def __init__(self, pid, tier, seed, shard, nshards):
        self.pid, self.tier, self.seed = pid, tier, seed
        self.shard, self.nshards = shard, nshards
        self.counters = collections.Counter()
        self.maxima = {}
        self.violations = {}       # mechanism -> {"count", "what", "witnesses":[...]}
        self.nontrivial = set()
        self.evaluations = 0
        self.samples = []
        self.notes = []
        self.t0 = time.time()
        self.budget_s = None
        self.stop = False
        self.only = None           # replay of one case index
        self.current = None
        self.fired = 0
        self.emergency = None      # set by the worker: write the result file and leave

    def cases(self, n):
        """case indices of this shard; ends early once a no-progress violation was recorded
        (every further case would burn its whole CPU budget again)"""
        try:
            for i in range(n):
                if self.stop or self.out_of_time():
                    self.notes.append(f"shard {self.shard} stopped early after {i} of {n} cases")
                    return
                if self.only is not None and i != self.only:
                    continue
                self.current = i
                self._arm()
                c0 = time.process_time()
                yield i
                self.peak("case_cpu_s_max", round(time.process_time() - c0, 3))
        finally:
            signal.setitimer(signal.ITIMER_VIRTUAL, 0)

    def _arm(self):
        """per-case CPU budget for every check (the network harness arms its own, tighter one inside Net.run and
        disarms it afterwards; the next case re-arms this one). The violation is recorded in the handler itself, so
        it survives whatever catches the exception on its way up (Process._resume catches BaseException)."""
        def on_budget(signum, frame):
            where = _library_frame(frame)
            self.fired += 1
            case = {"case_index": self.current, "shard": self.shard, "nshards": self.nshards, "seed": self.seed}
            if where is None:
                self.violation("INCONCLUSIVE-harness-cpu-budget", "a case exhausted its CPU budget outside the code under test", None, case)
                self.stop = True
            else:
                self.violation(f"no-progress:cpu-budget-exhausted@{where}",
                               f"one case burnt {CASE_CPU_BUDGET_S}s of CPU inside the code under test without finishing", {"frame": where}, case)
            if self.fired > 24 and self.emergency:
                self.emergency()
            raise CaseCpuBudget(where or "harness")
        signal.signal(signal.SIGVTALRM, on_budget)
        signal.setitimer(signal.ITIMER_VIRTUAL, CASE_CPU_BUDGET_S, 5.0)

    # -- case bookkeeping -------------------------------------------------
    def rng(self, *key):
        return random.Random(f"{self.pid}:{self.seed}:{self.shard}:" + ":".join(map(str, key)))

    def case_done(self, case, nontrivial, sample_every=0):
        self.evaluations += 1
        if nontrivial:
            self.nontrivial.add(case_hash(case))
        if len(self.samples) < 2 and nontrivial:
            self.samples.append(canon(case))

    def count(self, key, n=1):
        self.counters[key] += n

    def peak(self, key, v):
        if v > self.maxima.get(key, float("-inf")):
            self.maxima[key] = v

    def out_of_time(self):
        return self.budget_s is not None and time.time() - self.t0 > self.budget_s

    # -- violations ---------------------------------------------------------
    def violation(self, mechanism, what, witness=None, case=None):
        """`mechanism` names *what* failed (never a seed / hash / random value)."""
        if mechanism.startswith("no-progress") or mechanism.startswith("livelock"):
            self.stop = True
        v = self.violations.setdefault(
            mechanism, {"count": 0, "what": what, "witnesses": []})
        v["count"] += 1
        if len(v["witnesses"]) < self.MAX_WITNESS:
            v["witnesses"].append({"witness": canon(witness), "case": canon(case)})

    def result(self):
        return {
            "shard": self.shard,
            "evaluations": self.evaluations,
            "nontrivial": sorted(self.nontrivial),
            "counters": dict(self.counters),
            "maxima": self.maxima,
            "violations": self.violations,
            "samples": self.samples,
            "notes": self.notes,
            "wall_s": time.time() - self.t0,
        }


class Quiet:
    """Capture stdout of the code under test (SP.run and FIBDemux.put print)."""

    def __enter__(self):
        self._old = sys.stdout
        sys.stdout = io.StringIO()
        return self

    def __exit__(self, *a):
        sys.stdout = self._old
        return False


# ---------------------------------------------------------------------------
# I9 line observer
# ---------------------------------------------------------------------------
class LineObserver:
    def __init__(self, relfiles):
        self.files = {os.path.join(REPO, f): f for f in relfiles}
        self.hits = set()
        self.on = False

    def start(self):
        mon = getattr(sys, "monitoring", None)
        if mon is None:
            return
        tool = mon.COVERAGE_ID
        try:
            mon.use_tool_id(tool, "verif-lines")
        except ValueError:
            return
        files, hits = self.files, self.hits

        def on_line(code, line):
            f = files.get(code.co_filename)
            if f is not None:
                hits.add((f, line))
            return mon.DISABLE

        mon.register_callback(tool, mon.events.LINE, on_line)
        mon.set_events(tool, mon.events.LINE)
        self.on = True

    def stop(self):
        if not self.on:
            return
        mon = sys.monitoring
        mon.set_events(mon.COVERAGE_ID, 0)
        mon.free_tool_id(mon.COVERAGE_ID)
        self.on = False

    def result(self):
        return sorted(self.hits)


def executable_lines(relfile):
    """(set of executable lines, {function qualname: set of its own lines})."""
    path = os.path.join(REPO, relfile)
    try:
        src = open(path).read()
        top = compile(src, path, "exec")
    except (OSError, SyntaxError):
        return set(), {}
    lines, funcs = set(), {}

    def walk(code, qual):
        own = {l for (_, _, l) in code.co_lines() if l is not None and l > 0}
        own.discard(code.co_firstlineno)
        lines.update(own)
        if qual:
            funcs[qual] = own
        for c in code.co_consts:
            if hasattr(c, "co_lines"):
                walk(c, (qual + "." if qual else "") + c.co_name)

    walk(top, "")
    return lines, funcs


def line_report(relfiles, hits):
    byfile = collections.defaultdict(set)
    for f, l in hits:
        byfile[f].add(l)
    rep, not_entered = {}, []
    for f in relfiles:
        lines, funcs = executable_lines(f)
        h = byfile.get(f, set()) & lines if lines else byfile.get(f, set())
        rep[f] = {"executable": len(lines), "executed": len(h)}
        for q, own in sorted(funcs.items()):
            if q.split(".")[-1].startswith("<"):
                continue
            if own and not (own & byfile.get(f, set())):
                not_entered.append(f"{f}:{q}")
    return rep, not_entered


# ---------------------------------------------------------------------------
# known findings
# ---------------------------------------------------------------------------
def load_known():
    p = os.path.join(VERIF, "known_findings.json")
    try:
        data = json.load(open(p))
    except OSError:
        return []
    return data.get("findings", [])


def slug(s):
    return "".join(c if c.isalnum() or c in "-_." else "_" for c in s)[:80]
