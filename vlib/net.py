"""Network-side instruments: I2 tape with one action sequence, I3 taps, I4 packet identity,
I5 scripted distributions, I11 drivers that diversify same-instant order.
"""
import signal
import traceback

from . import kern


class CpuBudgetExceeded(Exception):
    """raised (ITIMER_VIRTUAL = CPU time of this process, independent of machine load) when one
    case burns orders of magnitude more CPU than any legitimate case: the code under test is
    spinning without yielding to the kernel."""


CPU_BUDGET_S = 30


def _on_budget(signum, frame):
    raise CpuBudgetExceeded("cpu budget exhausted")


class NetTape:
    """One append-only list per execution; every tap appends
    (seq, kernel step, now, kind, subject, uid, extra) with a single monotone seq."""

    def __init__(self, env):
        self.env = env
        self.ev = []
        self.taps = {}

    def rec(self, kind, subject, uid, extra=None):
        env = self.env
        self.ev.append((len(self.ev), env.steps, env.now, kind, subject, uid, extra))
        self.taps[kind] = self.taps.get(kind, 0) + 1

    def of(self, subject, kind=None):
        return [e for e in self.ev if e[4] == subject and (kind is None or e[3] == kind)]


FIELDS = ("packet_id", "flow_id", "src", "size", "time", "payload")


class Packets:
    """I4: strong references to every packet, id(obj) -> uid, field snapshot at injection."""

    def __init__(self):
        self.objs = []
        self.uid = {}
        self.snap = {}

    def register(self, p):
        u = self.uid.get(id(p))
        if u is None:
            u = len(self.objs)
            self.objs.append(p)
            self.uid[id(p)] = u
            self.snap[u] = tuple(getattr(p, f) for f in FIELDS)
        return u

    def known(self, p):
        return self.uid.get(id(p))

    def fields_changed(self, p):
        u = self.uid[id(p)]
        now = tuple(getattr(p, f) for f in FIELDS)
        if now != self.snap[u]:
            return [f for f, a, b in zip(FIELDS, self.snap[u], now) if a != b]
        return []


class Net:
    """environment + tape + packet registry for one execution"""

    def __init__(self, t0=0):
        K = kern.RealK.load()
        self.env = kern.make_monenv(K.Environment)(t0)
        self.tape = NetTape(self.env)
        self.pk = Packets()
        self.sched_of = {}        # uid -> kernel step in which the event that delivered the arrival was *scheduled*
        self.errors = []

    # -- taps -------------------------------------------------------------------
    def tap_put(self, elem, name):
        """instance-level wrapper on elem.put: records, then calls the original bound method"""
        orig = elem.put
        tape, pk = self.tape, self.pk

        def put(packet, *a, **k):
            tape.rec("in", name, pk.register(packet), packet.size)
            return orig(packet, *a, **k)

        elem.put = put
        return elem

    def tap_send(self, sched, name):
        orig = sched.send_packet
        tape, pk = self.tape, self.pk

        def send_packet(packet, *a, **k):
            tape.rec("decide", name, pk.register(packet), packet.size)
            return orig(packet, *a, **k)

        sched.send_packet = send_packet
        return sched

    def recorder(self, name, forward=None, kind="out"):
        return Recorder(self, name, forward, kind)

    # -- packets ------------------------------------------------------------------
    def make_packet(self, flow_id, size, pid, src="src", payload=None):
        from onl.packet import Packet
        p = Packet(self.env.now, size, pid, src=src, flow_id=flow_id, payload=payload)
        self.pk.register(p)
        return p

    # -- drivers (I11) --------------------------------------------------------------
    def driver(self, target, arrivals, src="src", on_inject=None):
        """arrivals: list of dicts {t, flow, size, split}; the instant t is reached through a
        chain of timeouts whose last link is created at an earlier instant chosen by `split`
        (0 = created at the previous arrival, 0<split<1 = created in between)."""
        env = self.env

        def run():
            n = 0
            made = env.steps          # step in which the event that resumes this driver next was created
            for a in arrivals:
                gap = a["t"] - env.now
                if gap > 0:
                    s = a.get("split", 0)
                    if s and gap * s > 0 and gap - gap * s > 0:
                        first = gap * s
                        made = env.steps
                        yield env.timeout(first)
                        rest = a["t"] - env.now
                        if rest > 0:
                            made = env.steps
                            yield env.timeout(rest)
                    else:
                        made = env.steps
                        yield env.timeout(gap)
                elif a.get("yield0"):
                    made = env.steps
                    yield env.timeout(0)
                for _ in range(a.get("late", 0)):
                    made = env.steps
                    yield env.timeout(0)                 # lands later *inside* the instant (after decisions taken at it)
                if a.get("again") and last[0] is not None:
                    # the very same Packet object once more (a retransmitted instance, a hub repeating one object)
                    if on_inject:
                        on_inject(last[0], a)
                    target.put(last[0])
                    continue
                n += 1
                fl = a["flow"]
                if isinstance(fl, int) and fl > 256:
                    fl = int(str(fl))                    # a fresh int object per packet (equal, not identical)
                p = self.make_packet(fl, a["size"], a.get("pid", n), src=a.get("src", src),
                                     payload=bytes(a["payload_len"]) if "payload_len" in a else a.get("payload"))
                if a.get("age"):
                    p.time = env.now - a["age"]          # created upstream some time ago
                    self.pk.snap[self.pk.uid[id(p)]] = tuple(getattr(p, f) for f in FIELDS)
                if on_inject:
                    on_inject(p, a)
                last[0] = p
                self.sched_of[self.pk.uid[id(p)]] = made
                target.put(p)

        last = [None]
        return env.process(run())

    def drivers(self, target, arrivals, ndrv=2, **kw):
        """split the arrival list over several driver processes (arrival key "drv"), so that
        same-instant arrivals also come from different kernel steps"""
        for d in range(ndrv):
            mine = [a for a in arrivals if a.get("drv", 0) % ndrv == d]
            if mine:
                self.driver(target, mine, **kw)

    def run(self, until=None, cap=400000):
        """env.run() with a step cap; returns None or a description of the exception"""
        env = self.env
        signal.signal(signal.SIGVTALRM, _on_budget)
        signal.setitimer(signal.ITIMER_VIRTUAL, CPU_BUDGET_S, 5.0)   # periodic: a second spinner (twin instance) must not escape
        try:
            if until is None:
                mark = None
                while env.peek() != float("inf"):
                    if env.steps > cap - 10000 and mark is None:
                        mark = env.now
                    if env.steps > cap:
                        # a violation only when the agenda is demonstrably cycling at one instant
                        return "livelock-at-one-instant" if mark == env.now else "INCONCLUSIVE-step-cap"
                    env.step()
            else:
                env.run(until=until)
        except Exception as e:
            root = e
            while root.__cause__ is not None:       # the kernel re-raises a copy; the cause has the real frames
                root = root.__cause__
            tb = traceback.extract_tb(root.__traceback__)
            where = next((f"{f.filename.split('/onl/')[-1]}:{f.name}" for f in reversed(tb)
                          if "/onl/" in f.filename and "/onl/sim/" not in f.filename), None)
            if where is None:
                where = next((f"{f.filename.split('/onl/')[-1]}:{f.name}" for f in reversed(tb) if "/onl/" in f.filename),
                             "harness")
            self.errors.append((type(e).__name__, where, repr(e)[:300]))
            if isinstance(root, CpuBudgetExceeded):
                return f"no-progress:cpu-budget-exhausted@{where}"
            return f"exception:{type(e).__name__}@{where}"
        finally:
            signal.setitimer(signal.ITIMER_VIRTUAL, 0)
        return None


class Recorder:
    """I3(a): a device placed as `out`; records and optionally forwards"""

    def __init__(self, net, name, forward=None, kind="out"):
        self.net, self.name, self.forward, self.kind = net, name, forward, kind
        self.got = []
        self.out = None

    def put(self, packet):
        u = self.net.pk.known(packet)
        if u is None:
            u = -1 - len(self.got)          # not a packet the harness injected (e.g. a copy)
        self.net.tape.rec(self.kind, self.name, u, packet.size)
        self.got.append((self.net.env.now, u, packet))
        if self.forward is not None:
            self.forward.put(packet)


class Script:
    """I5: a 'distribution' that replays a pre-drawn list and records each draw"""

    def __init__(self, values, net=None, name=None, cycle=True):
        self.values, self.i, self.net, self.name, self.cycle = list(values), 0, net, name, cycle
        self.draws = []

    def __call__(self):
        if self.i >= len(self.values):
            if not self.cycle:
                raise RuntimeError("scripted distribution exhausted")
            v = self.values[self.i % len(self.values)]
        else:
            v = self.values[self.i]
        self.i += 1
        if self.net is not None:
            self.draws.append((len(self.net.tape.ev), self.net.env.now, v))
        return v


def close(a, b, rel=1e-9, abs_=1e-12):
    return a == b or abs(a - b) <= max(abs_, rel * max(abs(a), abs(b)))


def gen_arrivals(rng, nflows, flavour, n, sizes, tmax, burst_p=0.35, flows=None):
    """random arrival list sorted by time; exact flavour = dyadic instants"""
    out = []
    t = 0
    flows = flows if flows is not None else list(range(nflows))
    while len(out) < n:
        r = rng.random()
        if r < burst_p:
            k = rng.randint(2, 5)
        else:
            k = 1
        if flavour == "exact":
            t = t + rng.choice([0, 0.25, 0.5, 1, 1, 2, 4])
        else:
            t = t + rng.choice([0, round(rng.uniform(0, 2), 2), 0.1, 0.3, rng.uniform(0, 1)])
        for _ in range(k):
            out.append({"t": t, "flow": rng.choice(flows), "size": rng.choice(sizes),
                        "split": rng.choice([0, 0, 0.5, 0.25, 0.75]), "drv": rng.choice([0, 0, 1]),
                        "age": rng.choice([0, 0, 0.5, 2])})
    return out[:n]
