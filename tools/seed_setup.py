#!/venv/bin/python
"""Prepares one scratch git worktree of /repo per property for a round of seeded changes written by fresh sub-agents
(/tmp/seed<round>_<PID>/ with PROPERTY.txt and TASK.md; nothing from /verif except the one-line summaries of the
changes earlier authors wrote for the same property, so that ideas are not repeated).

usage: tools/seed_setup.py <round> [PID ...]
Afterwards: one Agent per worktree ("Read /tmp/seed<round>_<PID>/TASK.md and do exactly what it says"), then
tools/seed_ingest.py <PID> /tmp/seed<round>_<PID>/OUT --offset <2*(round-1)>, then
git -C /repo worktree remove --force /tmp/seed<round>_<PID>."""
import glob
import json
import os
import subprocess
import sys

HERE = os.path.dirname(os.path.dirname(os.path.abspath(__file__)))

HINTS = {
    "default": """  * behaviour that only differs after a LONG history (hundreds of operations, counters growing large, many items held at once);
  * boundary / degenerate but legal configurations (a parameter equal to 0, two parameters exactly equal, capacity 1, a single
    flow, an empty table, a value that is falsy in Python, very large or very small numbers, negative priorities, float vs int);
  * interactions between TWO classes among the anchor files (one site alone looks fine);
  * state that survives something it should not survive (a reset, an idle period, a cancel, a restart, a re-configuration);
  * observers / helper APIs named in the statement (monitors, counters, views, return values) rather than the main data path;
  * a quantity that is only slightly wrong, or wrong only for one of several equivalent call forms.""",
    "4": """  * go through the STATEMENT clause by clause (every "and", "never", "exactly", "only", every second sentence) and target a
    clause none of the earlier changes touches, in particular what must be REFUSED / raised / left unchanged;
  * a change in a shared helper or base class (base classes of the anchor files, mix-ins, utilities they import) that reaches
    the property only through one subclass or one call path;
  * dependence on identity / equality / hash / ordering of user-supplied values (items or packets that compare equal, ids that
    are strings, tuples, bools, numpy-like or negative numbers, unorderable payloads);
  * equivalent call forms (keyword vs positional, context manager vs explicit call, operator vs constructor, re-using an object
    after it completed, calling a method twice, calling it from inside a callback of the same object = re-entrancy);
  * exact coincidences in time (two sources acting at precisely the same instant, zero delays, an action exactly at an expiry,
    at a transmission end, at the stop time of run()), and the ORDER of things inside one instant;
  * errors that occur while another operation is half done (an exception or interrupt delivered between two updates of state that
    must stay consistent), and what the object does AFTER it reported an error;
  * the earlier rounds already covered: long histories, values 0/None/falsy, huge clocks, two instances alive at once, tables
    changed at run time -- do not rely on those.""",
    "5": """  * the classic Python slips: a mutable default argument or class-level attribute shared by all instances / all calls, a
    cache or memo that is never invalidated, a fast path that skips bookkeeping, late-binding closures, `is` vs `==`,
    truthiness of 0 / empty containers, integer vs true division, sort stability, dict / set iteration order;
  * a change OUTSIDE the anchor files that reaches the property through them (packet.py, device.py, flow.py, types.py, utils,
    the package __init__ exports, a base class or mix-in);
  * something that shows only when two or more elements are COMPOSED (an element inside a switch, a pipeline of three devices,
    TCP over ports / schedulers / lossy wires, a scheduler feeding a token bucket) although each element alone looks right;
  * the first or the last of something (first packet of a flow, the last packet, exactly one element, ids or counters that wrap
    around or restart), values of unusual numeric type (bool, Fraction, Decimal, numpy-like scalars);
  * behaviour AFTER an exception was raised and caught by the caller, after an object was stopped / finished / drained and is
    used again, or when a method is called before the simulation has started;
  * the earlier rounds already covered: long histories, 0 / None / falsy configuration values, huge clocks, two instances alive
    at once, tables changed at run time, re-entrant next hops, the same object passing twice, events coinciding inside one
    instant, equality-with-everything values, interrupts from plain callbacks -- do not rely on those.""",
    "6": """  * pick a clause of the STATEMENT and ask "what observable situation exercises exactly this clause, and in which variants
    of it could the code go wrong while all the other clauses still hold?" -- e.g. the clause about a counter, a returned value,
    an error that must be raised, an order among equals, a quantity that must be conserved;
  * off-by-one and boundary comparisons in places a random workload hits rarely: the second element, the element before the
    last, exactly at a limit / threshold / deadline, an empty queue right after it held one element, wrap from the last table
    entry to the first;
  * state kept across phases of one object's life: created -> used -> idle -> used again -> stopped -> restarted; something
    cleaned up too early or too late; a value computed once at construction that should follow later changes of a public
    attribute (rate, weights, limits, delay distribution, callbacks);
  * interplay with the simulation kernel: a component that yields one extra time (or one time less) inside an instant, creates
    its helper process lazily, uses a timeout of 0 where it used none, or reorders two of its own actions inside one instant;
  * several flows / processes / classes that map onto ONE internal slot (same key after a mapping, same priority, same stamp,
    same size) or one flow that is split over several;
  * the earlier five rounds already covered: long histories, 0 / None / falsy values, huge / negative / integer / rational clocks,
    two instances alive at once, tables changed at run time, re-entrant next hops, the same object passing twice, coincidences
    inside one instant, exotic value types, interrupts from callbacks, shared mutable defaults, `is` vs `==`, stale caches,
    changes outside the anchor files, debug flags, float / Fraction sizes -- do not rely on those.""",
    "7": """  * read every public method, property and optional constructor parameter of the classes in the anchor files and pick one
    that an automated workload generator would plausibly never call or never set to a non-default value, yet which the
    STATEMENT covers;
  * a wrong result only for a particular RELATION between two values (a size that is an exact multiple of another value, a
    time that is an exact multiple of a period, two rates whose ratio is an integer, a delay equal to a transmission time, a
    count that equals a capacity), reached through `==`, `%`, `//`, rounding, `int()`, `round()`, or a `<` that should be `<=`;
  * accumulated floating-point error: a quantity updated incrementally (`+=` per event) where it was computed from scratch, or
    a subtraction of two large nearly equal numbers, so that a comparison flips only after many steps;
  * something that depends on the ORDER in which the user constructs or connects objects (sink before source, ports connected
    after the first packet, a table filled in incrementally, a flow registered twice);
  * a path taken only when a collection momentarily holds exactly two (or exactly zero) entries of a kind, or when the same
    key is removed and re-inserted within one instant;
  * the earlier six rounds already covered: long histories, 0 / None / falsy values, huge / negative / integer / rational clocks,
    two instances alive at once, tables changed at run time, re-entrant next hops, the same object passing twice, coincidences
    inside one instant, exotic value types, interrupts from callbacks, shared mutable defaults, `is` vs `==`, stale caches,
    changes outside the anchor files, debug flags, float / Fraction sizes, lazily created helper processes, zero-delay hops,
    attribute changes between phases, several flows on one slot -- do not rely on those.""",
}


def main():
    rnd = sys.argv[1]
    want = sys.argv[2:]
    prev = {}
    for d in sorted(glob.glob(os.path.join(HERE, "seeded", "C*-*"))):
        m = json.load(open(d + "/meta.json"))
        prev.setdefault(m["property"], []).append(
            f"- {m.get('summary', '')} (file {m['files'][0] if m['files'] else '?'}; needed: {m.get('needs_to_manifest', '')})")
    hints = HINTS.get(rnd, HINTS["default"])
    for line in open(os.path.join(HERE, "properties.jsonl")):
        p = json.loads(line)
        pid = p["id"]
        if want and pid not in want:
            continue
        w = f"/tmp/seed{rnd}_{pid}"
        if not os.path.isdir(w):
            subprocess.run(["git", "-C", "/repo", "worktree", "add", "--detach", w, "HEAD"], check=True, capture_output=True)
        open(f"{w}/PROPERTY.txt", "w").write(
            f"{pid}: {p['title']}\n\nSTATEMENT\n{p['statement']}\n\nQUANTIFIER\n{p['quantifier']['text']}\n\n"
            f"WHY THE EXISTING TESTS CANNOT SETTLE IT\n{p['why_tests_cant']}\n\nANCHOR FILES\n" + "\n".join(p["anchors"]["files"]) + "\n")
        n = len(prev.get(pid, []))
        open(f"{w}/TASK.md", "w").write(f"""# Task

You are helping to test a verification suite by producing realistic *bugs*. Work ONLY inside the git worktree {w}
(a checkout of a small pure-Python network simulator, package `onl/`, tests in `tests/`). Never touch /repo or /verif, and do
not read anything under /verif.

Read {w}/PROPERTY.txt: it states one semantic property of the code base. Produce TWO different, independent source changes
(each a small patch to files under onl/), each of which BREAKS that property while (a) the code still imports and (b) the
existing test suite still passes completely:

    cd {w} && PYTHONPATH=$PWD /venv/bin/python -m pytest -q -p no:cacheprovider tests      # must print "119 passed"

(tests/test_rt.py sleeps on the wall clock and can fail spuriously on a loaded machine: re-run once if only a test_rt test fails.)

{n} changes have ALREADY been written for this property by earlier authors, and a randomized checker that drives many thousands
of random workloads has caught all of them. Do NOT repeat these ideas:

{chr(10).join(prev.get(pid, ['- (none yet)']))}

Your changes must be clearly different AND harder to stumble on. Think about what such a checker would NOT exercise, for example:
{hints}
NOT changes that any ordinary use exposes at once, not crashes on every call, not infinite loops. They must look like plausible
mistakes or "optimisations" a developer might make, and they must violate the STATEMENT as written (not merely change
unspecified behaviour): say which sentence of the statement your demo contradicts.

For each change i in {{1,2}} deliver, in {w}/OUT/ (create it):
  - patch<i>.diff : `git diff` of that change alone against the unmodified worktree (applies with `git apply` on a clean checkout);
  - demo<i>.py    : standalone program (run as `cd {w} && PYTHONPATH=$PWD /venv/bin/python OUT/demo<i>.py`) that exits 0 and
                    prints PASS on the UNMODIFIED code and exits non-zero / prints FAIL with the change applied, demonstrating the
                    property violation through the public API;
  - a section `## Change <i>` in OUT/README.md: which clause it breaks, what it needs in order to manifest, the exact commands
    you ran and their results (tests with patch: 119 passed; demo without patch: PASS; demo with patch: FAIL).

Verify all of that yourself (apply patch -> tests -> demo -> `git checkout -- .` -> demo again). Leave the worktree clean (no
modified tracked files); only OUT/, PROPERTY.txt and TASK.md may remain untracked. Report briefly what the two changes are.
""")
        print("prepared", w)


if __name__ == "__main__":
    main()
