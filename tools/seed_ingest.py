#!/venv/bin/python
"""Confirm a seeded change written by a sub-agent and run the checks against it.

usage: tools/seed_ingest.py <PID> <agent OUT dir> [--also C02,C03] [--all]

For every patch<i>.diff / demo<i>.py in the OUT dir:
  1. scratch copy of /repo (under /tmp, removed afterwards), `git apply` the patch;
  2. the repository's 119 tests must still pass;
  3. the demo must FAIL on the patched copy and PASS on an unpatched copy;
  4. the property's check (quick; thorough too if quick misses) and the --also checks are run
     with VERIF_REPO=<patched copy>;
  5. the change is stored as /verif/seeded/<PID>-<i>/{patch.diff, demo.py, meta.json}.
"""
import argparse
import json
import os
import re
import shutil
import subprocess
import sys
import tempfile

HERE = os.path.dirname(os.path.dirname(os.path.abspath(__file__)))
ALL = [f"C{i:02d}" for i in range(1, 21)]


def sh(cmd, cwd=None, env=None, timeout=3000):
    p = subprocess.run(cmd, cwd=cwd, env=env, capture_output=True, text=True, timeout=timeout)
    return p.returncode, p.stdout + p.stderr


def scratch():
    d = tempfile.mkdtemp(prefix="onlseed_", dir="/tmp")
    subprocess.run(["rsync", "-a", "--exclude", "__pycache__", "--exclude", "OUT", "/repo/", d + "/"], check=True)
    return d


def run_check(pid, repo, tier="quick"):
    env = dict(os.environ, VERIF_REPO=repo)
    rc, out = sh([os.path.join(HERE, "check"), pid, "--tier", tier, "--noevidence"], cwd=HERE, env=env)
    mechs = [l.split("mechanism=")[1].split(" (")[0] for l in out.splitlines() if "mechanism=" in l]
    return {"rc": rc, "tier": tier, "mechanisms": mechs[:8]}


def main():
    ap = argparse.ArgumentParser()
    ap.add_argument("pid")
    ap.add_argument("out")
    ap.add_argument("--also", default="")
    ap.add_argument("--all", action="store_true")
    ap.add_argument("--needs", default="")
    ap.add_argument("--quick-only", action="store_true", help="do not fall back to the thorough tier when quick misses")
    ap.add_argument("--offset", type=int, default=0, help="stored as <PID>-<i+offset> (second round of changes)")
    a = ap.parse_args()
    readme = open(os.path.join(a.out, "README.md")).read() if os.path.exists(os.path.join(a.out, "README.md")) else ""
    for i in (1, 2, 3):
        pf = os.path.join(a.out, f"patch{i}.diff")
        df = os.path.join(a.out, f"demo{i}.py")
        if not os.path.exists(pf):
            continue
        d, clean = scratch(), scratch()
        try:
            rc, out = sh(["git", "apply", pf], cwd=d)
            if rc != 0:
                print(f"{a.pid}-{i}: patch does not apply: {out[-300:]}")
                continue
            files = re.findall(r"^\+\+\+ b/(\S+)", open(pf).read(), re.M)
            env = dict(os.environ, PYTHONPATH=d, PYTHONDONTWRITEBYTECODE="1")
            rc, out = sh(["/venv/bin/python", "-m", "pytest", "-q", "-p", "no:cacheprovider", "tests"], cwd=d, env=env)
            tests = out.strip().splitlines()[-1] if out.strip() else ""
            tests_ok = rc == 0 and "119 passed" in tests
            tries = 0
            while not tests_ok and tries < 3 and "1 failed" in tests:
                # tests/test_rt.py sleeps on the wall clock and is flaky on a loaded machine: re-run
                failed = re.findall(r"^FAILED (\S+)", out, re.M)
                rc, out = sh(["/venv/bin/python", "-m", "pytest", "-q", "-p", "no:cacheprovider", "tests"], cwd=d, env=env)
                t2 = out.strip().splitlines()[-1] if out.strip() else ""
                tests = t2 + f"  (an earlier attempt on the loaded machine: {tests}; failed: {failed})"
                tests_ok = rc == 0 and "119 passed" in t2
                tries += 1
            for x in (d, clean):
                os.makedirs(os.path.join(x, "OUT"), exist_ok=True)
                for f in os.listdir(a.out):
                    if os.path.isfile(os.path.join(a.out, f)):
                        shutil.copy(os.path.join(a.out, f), os.path.join(x, "OUT", f))
            rc_p, out_p = sh(["/venv/bin/python", f"OUT/demo{i}.py"], cwd=d, env=dict(env, PYTHONPATH=d), timeout=600)
            rc_c, out_c = sh(["/venv/bin/python", f"OUT/demo{i}.py"], cwd=clean, env=dict(env, PYTHONPATH=clean), timeout=600)
            demo_ok = rc_p != 0 and rc_c == 0
            res = {}
            props = [a.pid] + [x for x in a.also.split(",") if x]
            if a.all:
                props = [a.pid] + [x for x in ALL if x != a.pid]
            for pid in props:
                r = run_check(pid, d)
                if pid == a.pid and r["rc"] != 1 and not a.quick_only:
                    r2 = run_check(pid, d, "thorough")
                    res[pid + ":thorough"] = r2
                res[pid] = r
            caught = [k for k, v in res.items() if v["rc"] == 1]
            dest = os.path.join(HERE, "seeded", f"{a.pid}-{i + a.offset}")
            os.makedirs(dest, exist_ok=True)
            shutil.copy(pf, os.path.join(dest, "patch.diff"))
            if os.path.exists(df):
                shutil.copy(df, os.path.join(dest, "demo.py"))
            sec = ""
            m = re.split(r"\n(?=#+ )", readme)
            for part in m:
                if re.search(rf"(patch|change|bug)\s*{i}\b", part[:200], re.I):
                    sec = part.strip()[:2500]
                    break
            meta = {
                "property": a.pid, "files": files,
                "origin": "written by a fresh sub-agent that saw only the property text and its own scratch worktree",
                "breaks": sec.splitlines()[0] if sec else "",
                "agent_notes": sec,
                "needs_to_manifest": a.needs,
                "confirmed": {
                    "repo_tests_with_patch": tests,
                    "tests_pass_with_patch": tests_ok,
                    "demo_with_patch": {"exit": rc_p, "tail": out_p.strip().splitlines()[-1][:200] if out_p.strip() else ""},
                    "demo_without_patch": {"exit": rc_c, "tail": out_c.strip().splitlines()[-1][:200] if out_c.strip() else ""},
                    "demo_discriminates": demo_ok,
                },
                "ran": "scratch copy of /repo with the patch applied (git apply); repository tests; OUT/demo on patched and unpatched copies; "
                       "VERIF_REPO=<patched copy> ./check <id> --noevidence for the ids under 'checks'",
                "checks": res,
                "caught_by": caught,
                "kept": bool(tests_ok and demo_ok),
            }
            json.dump(meta, open(os.path.join(dest, "meta.json"), "w"), indent=1)
            print(f"{a.pid}-{i + a.offset}: tests_ok={tests_ok} demo_ok={demo_ok} caught_by={caught} "
                  f"{ {k: v['mechanisms'][:3] for k, v in res.items() if v['rc'] == 1} }", flush=True)
        finally:
            shutil.rmtree(d, ignore_errors=True)
            shutil.rmtree(clean, ignore_errors=True)


if __name__ == "__main__":
    main()
