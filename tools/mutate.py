#!/venv/bin/python
"""Teeth check of the monitors: apply one-line mutants to a scratch copy of /repo (under /tmp,
removed afterwards), confirm the repository's own tests still pass, run the named checks with
VERIF_REPO pointing at the copy and report which check caught what.

usage: tools/mutate.py [--only NAME_SUBSTR] [--props C01,C02] [--tier quick] [-j N]
"""
import argparse
import concurrent.futures as cf
import json
import os
import shutil
import subprocess
import sys
import tempfile

HERE = os.path.dirname(os.path.dirname(os.path.abspath(__file__)))
sys.path.insert(0, HERE)
from tools.mutants import MUTANTS  # noqa: E402


def run_one(m, tier, skip_tests):
    name, path, old, new, props = m
    d = tempfile.mkdtemp(prefix="onlmut_", dir="/tmp")
    try:
        subprocess.run(["rsync", "-a", "--exclude", ".git", "--exclude", "__pycache__", "/repo/", d + "/"], check=True)
        f = os.path.join(d, path)
        s = open(f).read()
        if s.count(old) != 1:
            return name, {"error": f"pattern occurs {s.count(old)}x"}
        open(f, "w").write(s.replace(old, new))
        res = {}
        if not skip_tests:
            env = dict(os.environ, PYTHONPATH=d, PYTHONDONTWRITEBYTECODE="1")
            p = subprocess.run(["/venv/bin/python", "-m", "pytest", "-q", "-x", "-p", "no:cacheprovider", "tests"],
                               cwd=d, env=env, capture_output=True, text=True, timeout=600)
            res["tests"] = "pass" if p.returncode == 0 else "FAIL: " + p.stdout.strip().splitlines()[-1][:100]
        for pid in props:
            env = dict(os.environ, VERIF_REPO=d, VERIF_TIER=tier)
            p = subprocess.run([os.path.join(HERE, "check"), pid, "--tier", tier, "--noevidence"], cwd=HERE, env=env,
                               capture_output=True, text=True, timeout=3600)
            mechs = [l.split("mechanism=")[1].split(" ")[0] for l in p.stdout.splitlines() if "mechanism=" in l]
            res[pid] = {"rc": p.returncode, "mechs": mechs[:6]}
        return name, res
    finally:
        shutil.rmtree(d, ignore_errors=True)


def main():
    ap = argparse.ArgumentParser()
    ap.add_argument("--only", default="")
    ap.add_argument("--props", default="")
    ap.add_argument("--tier", default="quick")
    ap.add_argument("-j", type=int, default=8)
    ap.add_argument("--skip-tests", action="store_true")
    a = ap.parse_args()
    sel = [m for m in MUTANTS if a.only in m[0]]
    if a.props:
        want = set(a.props.split(","))
        sel = [(n, p, o, nw, [x for x in pr if x in want]) for (n, p, o, nw, pr) in sel if set(pr) & want]
    missed = 0
    with cf.ThreadPoolExecutor(a.j) as ex:
        for name, res in ex.map(lambda m: run_one(m, a.tier, a.skip_tests), sel):
            caught = [p for p, r in res.items() if isinstance(r, dict) and r.get("rc") == 1]
            status = "CAUGHT" if caught else "MISSED"
            if not caught:
                missed += 1
            print(f"{status:7} {name:45} {json.dumps(res)[:400]}", flush=True)
    print(f"{len(sel)} mutants, {missed} missed")


if __name__ == "__main__":
    main()
