#!/venv/bin/python
"""Writes summary / needs_to_manifest into seeded/*/meta.json from seeded/summaries.json and regenerates
DESIGN.md section 10.5 from the metas."""
import glob
import json
import os

HERE = os.path.dirname(os.path.dirname(os.path.abspath(__file__)))
S = json.load(open(os.path.join(HERE, "seeded", "summaries.json")))
rows = []
missed_first = json.load(open(os.path.join(HERE, "seeded", "missed_first.json")))
for d in sorted(glob.glob(os.path.join(HERE, "seeded", "C*-*"))):
    k = os.path.basename(d)
    m = json.load(open(d + "/meta.json"))
    if k in S:
        m["summary"], m["needs_to_manifest"] = S[k]
    if k in missed_first:
        m["missed_at_first"] = missed_first[k]
    json.dump(m, open(d + "/meta.json", "w"), indent=1)
    mech = []
    for c in m["caught_by"]:
        mech += m["checks"][c]["mechanisms"][:2]
    rows.append((k, m["files"][0] if m["files"] else "", m.get("summary", ""), ", ".join(m["caught_by"]) or "**NOT CAUGHT**",
                 ", ".join(dict.fromkeys(mech)), "yes" if k in missed_first else ""))
t = ("\n### 10.5 Which check catches which seeded change\n\n"
     f"All {len(rows)} changes were confirmed in scratch copies (119 repository tests pass with the patch; the author's demo fails with "
     "it and passes without it) and then run against the checks with `VERIF_REPO=<patched copy>` (`tools/seed_ingest.py`; details in "
     "`seeded/<id>/meta.json`). Changes `-1`/`-2` are from the first round of sub-agents, `-3`/`-4` from a second round that was told "
     "which ideas had been used and asked for harder ones, `-5`/`-6` from a third round that was given the ideas of both earlier rounds "
     "and asked for changes that need long histories, boundary configurations, several instances alive at once, reconfiguration "
     "at run time or unusual clock values, `-7`/`-8` from a fourth round (hints: go through the statement clause by clause, shared "
     "helpers, identity / equality of user-supplied values, equivalent call forms, exact coincidences and the order inside one instant, "
     "re-entrancy, errors while an operation is half done), `-9`/`-10` from a fifth round (hints: classic Python slips such as shared "
     "mutable defaults, stale caches, `is` vs `==`; changes outside the anchor files; compositions of elements; first / last / "
     "single elements and unusual numeric types; behaviour after an exception or before the simulation started). One change of that "
     "round (C17-9) is recorded as *not caught and not chased*, with the reason; `-11`/`-12` from a sixth round (hints: clause by clause, "
     "boundary comparisons, state across the phases of an object's life, values computed once that should follow a public attribute, "
     "interplay with the kernel inside one instant, several things mapped onto one slot), `-13`/`-14` from a seventh, partial round for six properties (C07, C09, C11, C16, C18, C19; hints: "
     "public methods and optional parameters a workload generator never uses, results wrong only for an exact relation between two values, "
     "accumulated floating-point error, the order in which objects are constructed and connected, collections holding exactly two or zero "
     "entries). A patch that no longer applied after a later repair of /repo was re-written "
     "against the repaired file (`patch.orig.diff` keeps the author's diff). The *caught by* column is the result with the machinery as committed "
     "(`tools/seed_recheck.py --update`; the result at ingest time is kept in each meta.json as `checks_at_ingest`). The column *missed at first* marks changes no check caught when they came "
     "in; each led to a stronger monitor (what was changed is in `seeded/missed_first.json` and in section 8):\n\n")
for k, why in missed_first.items():
    t += f"* **{k}** — {why}\n"
t += "\n| change | file | what it does | caught by | mechanisms | missed at first |\n|---|---|---|---|---|---|\n"
for r in rows:
    t += "| %s | `%s` | %s | %s | `%s` | %s |\n" % (r[0], r[1], r[2], r[3], r[4].replace(", ", "`, `"), r[5])
p = os.path.join(HERE, "DESIGN.md")
s = open(p).read()
if "\n### 10.5" in s:
    s = s[:s.index("\n### 10.5")]
open(p, "w").write(s.rstrip("\n") + "\n" + t)
print(len(rows), "rows")
