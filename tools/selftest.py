#!/venv/bin/python
"""setup_cmd: nothing to build (pure Python, stdlib only); verify the pieces import."""
import os
import sys

HERE = os.path.dirname(os.path.dirname(os.path.abspath(__file__)))
sys.path.insert(0, HERE)
from vlib import common  # noqa: E402

common.import_repo()
import importlib  # noqa: E402

n = 0
for f in sorted(os.listdir(os.path.join(HERE, "checks"))):
    if f.startswith("c") and f.endswith(".py"):
        importlib.import_module("checks." + f[:-3])
        n += 1
os.makedirs(os.path.join(HERE, ".work"), exist_ok=True)
os.makedirs(os.path.join(HERE, "evidence"), exist_ok=True)
print(f"selftest ok: {n} check modules import; onl from {common.REPO}")
