#!/venv/bin/python
"""Regenerates /verif/MANIFEST.json from the table below (single source of truth)."""
import json
import os

HERE = os.path.dirname(os.path.dirname(os.path.abspath(__file__)))
GUARD = "ONL_EDU_VERIF"

CHECKS = {
    "C01": dict(
        technique="runtime monitor: shadow agenda popped at every observed occurrence + spec-kernel tape equality over random programs",
        level="exploration", ref="DESIGN.md 4/C01",
        text="Online monitor over executions of the real kernel: every trigger act of the harness feeds a shadow agenda "
             "(due, urgent<normal, trigger seq); every observed occurrence must be the shadow minimum at now == due. Second "
             "oracle: tape equality with an executable model of C01-C05. Held = silent on thousands of random programs whose "
             "occurrences coincide heavily; not a proof for unexplored programs.",
        note="trusts: the harness sees every trigger (programs use only timeouts, shared events, processes, interrupts, numeric stops); "
             "the spec kernel was written from the property text"),
    "C02": dict(
        technique="runtime monitor: per-event waiter ledger + escape-of-failure check + spec-kernel tape equality",
        level="exploration", ref="DESIGN.md 4/C02",
        text="Waiter ledger frozen when an event is processed; the following resumptions/callbacks must be exactly the registered "
             "waiters, in order, each with the event's own outcome; unhandled failures must escape run() in that very step.",
        note="trusts the harness's identification of waiters at the process/callback boundary"),
    "C03": dict(
        technique="runtime monitor: trace-digest equality across re-runs / interpreter processes / PYTHONHASHSEED values + split-plan transparency oracle against the uninterrupted tape",
        level="exploration", ref="DESIGN.md 4/C03",
        text="Each program is executed uninterrupted and under a random plan of run(until=number|event)/step() calls; after every "
             "stop now == t bit-exactly and the tape so far is exactly the prefix of the uninterrupted tape that the statement "
             "prescribes; at the end the tapes are equal. Digests of kernel programs and network scenarios are compared across "
             "fresh interpreters under several hash seeds.",
        note="the comparison covers a run up to and including its first escaping failure; hash seeds are sampled"),
    "C04": dict(
        technique="runtime monitor: interrupt ledger + shadow agenda + resumption-source check + spec-kernel tape equality",
        level="exploration", ref="DESIGN.md 4/C04",
        text="Every issued interrupt is followed to its single delivery (or discard with the victim): issue order, same instant, no "
             "ordinary occurrence in between; victims are only resumed by what they currently yield.",
        note="unique causes identify deliveries; dead/self refusal is modelled from the harness's knowledge of generator exit"),
    "C05": dict(
        technique="runtime monitor: closed-form trigger time / failure / value set recomputed from observed leaf completions + spec-kernel tape equality",
        level="exploration", ref="DESIGN.md 4/C05",
        text="For every waited condition tree the trigger instant (max/min recursion with failure short-circuit) and the exact "
             "value set (leaves processed before the condition's own processing step, operand order) are recomputed from probes "
             "and compared with what the waiter received.",
        note="orders that depend on the unobservable processing step of a nested condition are decided by the spec-kernel comparison only"),
    "C06": dict(
        technique="runtime monitor: request shadow + users-diff at every harness op and kernel step; capacity / grant-order / no-idle-slot (clock-advance hook) / preemption-decision invariants",
        level="exploration", ref="DESIGN.md 4/C06",
        text="Invariants evaluated on the real Resource/PriorityResource/PreemptiveResource at every kernel step and every clock "
             "advance over random request/release/cancel/with histories with dense coincidences; evictions are attributed through the "
             "Preempted cause the victim receives.",
        note="quantifier respected: one live request per process and resource; positive preemption expectation only for head requests"),
    "C07": dict(
        technique="runtime monitor: conservation ledger by item identity + order oracles + strict FCFS + head-of-queue-unsatisfiable check at every clock advance",
        level="exploration", ref="DESIGN.md 4/C07",
        text="Ledger over random put/get/cancel histories on Container/Store/PriorityStore/FilterStore with equal-but-distinct items; "
             "public level/items compared with the ledger after every op and kernel step; reference satisfiability predicate evaluated "
             "on the oldest pending put/get whenever the clock is about to advance.",
        note="FCFS read strictly (FilterStore getters exempt); filters depend on item fields only"),
}

CHECKS.update({
    "C08": dict(
        technique="runtime monitor: per-element packet ledger over put()/out taps (identity, fields, per-flow order, conservation against the documented discard rule) + recomputation of generator / sink bookkeeping from the tap log",
        level="exploration", ref="DESIGN.md 4/C08",
        text="Offline checker over the recorded tap log of random pipelines (chains, fan-in, fan-out through demuxes and switches) of all "
             "elements: every packet is the same object with unchanged identifying fields, leaves once, in per-flow order, and "
             "in == out + counted drops + no-route at exhaustion; no exception; DistPacketGenerator law and PacketSink statistics recomputed.",
        note="discard rules as documented (Port tail drop counted, Wire loss rate, no route); schedulers configured for the flows they see"),
    "C09": dict(
        technique="runtime monitor: exact reference Port replayed over the tap log in action order + byte-occupancy shadow at every tap and kernel step + PortMonitor timeline + RED EWMA recurrence / region rules / Azuma bound",
        level="exploration", ref="DESIGN.md 4/C09",
        text="Departure instants bit-exact against the FIFO single-server reference; every drop decision against the limit rule with the "
             "lo/hi waiting count where the service start is unobservable; byte_size shadow; perhop stamps; RED statistically with a "
             "1e-12 false-alarm budget plus its deterministic regions.",
        note="arrival-to-idle window admits two waiting counts; RED curve at/above max_threshold read as 'at least max_probability'"),
    "C10": dict(
        technique="runtime monitor: delivery-time law D_i = max(a_i + d_i, D_{i-1}) over the tap log with harness-scripted delays; FIFO / exactly-once; Hoeffding band on loss frequency",
        level="exploration", ref="DESIGN.md 4/C10",
        text="Entry instants from the put tap, delays from the scripted delay_dist, deliveries from the out recorder; exact on dyadic "
             "workloads; loss none / all / statistically consistent and lag-1 independent; Cable directions independent.",
        note="the k-th delay draw belongs to the k-th delivered (or k-th entered) packet; loss decided statistically (budget 1e-12)"),
    "C11": dict(
        technique="runtime monitor: exact reference token bucket (earliest conforming instant) + pairwise conformance inequality + peak spacing + colour rules / green-conformance inequality",
        level="exploration", ref="DESIGN.md 4/C11",
        text="Departures bit-exact against the reference shaper on dyadic workloads; independent sliding-window conformance "
             "inequality; two-rate: red exactly, single-bucket colours exactly, green conformance and must-be-green rule.",
        note="with PIR the committed bucket's evolution is not fixed by the statement; yellow/green decided by inequalities"),
    "C12": dict(
        technique="runtime monitor: three taps per scheduler (arrival, send_packet decision, departure) in one action order; time-only work-conservation / duration / no-overlap / exactly-once / FIFO oracle; counter shadow at every tap and step; Monitor timeline",
        level="exploration", ref="DESIGN.md 4/C12",
        text="For each of the six schedulers, over bursts, idle gaps and arrivals exactly at transmission ends, with identity, injective "
             "and many-to-one class maps.", note="decision observed at the public send_packet call; zero decisions => inconclusive"),
    "C13": dict(
        technique="runtime monitor: at every SP service decision the shadow waiting set contains no strictly higher priority",
        level="exploration", ref="DESIGN.md 4/C13",
        text="Action-ordered shadow of waiting packets; workloads keep several priority levels backlogged.",
        note="priority table keyed by flow id, positive priorities"),
    "C14": dict(
        technique="runtime monitor: stamps recomputed from the observed history (V / F / auxVC recurrences) with candidate worlds for the same-instant reset; min-stamp rule at every decision; static-backlog fairness bound",
        level="exploration", ref="DESIGN.md 4/C14",
        text="Reference stamps from the tap log only; a decision is a violation only if every admissible world is contradicted.",
        note="tie rule enforced only on dyadic workloads; 1e-9 relative tolerance on decimal ones"),
    "C15": dict(
        technique="runtime monitor: visit-window rule + per-visit allowance automaton (candidate set) + DRR credit step reference on public deficit snapshots + DRR fairness bound",
        level="exploration", ref="DESIGN.md 4/C15",
        text="Some integer number of rounds must explain the public credits between consecutive decisions; credit range; fairness over jointly backlogged periods.",
        note="pointer parking across idle periods free; residue fork when a class refills during its emptying transmission"),
    "C16": dict(
        technique="runtime monitor + fault enumeration: interval-model ACK oracle on exhaustive arrival sequences; bounded-progress oracle under enumerated drop / delay patterns by transmission index",
        level="fault_enumeration", ref="DESIGN.md 4/C16",
        text="Sink: all sequences of <= 6 arrivals over 4 segments. Sender: every pattern of <= 2 (quick) / <= 3 (thorough) drops and <= 2 "
             "extra delays over the first N+4 data and ACK transmissions, Reno and CUBIC; completion within a simulated-time horizon, no exception, also after completion.",
        note="liveness restated as bounded progress after finitely many faults"),
    "C17": dict(
        technique="runtime monitor: reference Reno/CUBIC/RTO state machine stepped on the same scripted ACK / timer history (candidate set), compared with the public state after every event; send-guard and retransmission checks at the output tap",
        level="exploration", ref="DESIGN.md 4/C17",
        text="History + executable model; the reference is written from the statement (CUBIC from the Ha/Rhee/Xu pseudo-code with the snapshot's units).",
        note="further duplicates may or may not retransmit; the send guard is a necessary condition"),
    "C18": dict(
        technique="runtime monitor: routing oracles recomputed from tables; hub / splitter identity rules; FatTree structural invariants via networkx; hop-by-hop FIB walk; per-hop taps in a simulated fat tree",
        level="exploration", ref="DESIGN.md 4/C18",
        text="Random tables / populations / k / flow sets; end-to-end: every packet seen exactly at its path's nodes in order and at its own sink only.",
        note="non-empty output lists, non-negative ports"),
    "C19": dict(
        technique="runtime monitor: reference timer automaton over the action history of create / stop / restart calls and callback entries",
        level="exploration", ref="DESIGN.md 4/C19",
        text="Calls from other processes and from the callback at / around expiry instants; one-shot and auto-restart; scalar and list args.",
        note="after stop() never again (literal); restart after a fired one-shot is open"),
    "C20": dict(
        technique="runtime monitor: virtual wall clock substituted for monotonic/sleep; never-ahead check at every processed occurrence; strict decision model at every step(); tape equality with Environment",
        level="exploration", ref="DESIGN.md 4/C20",
        text="Random programs x factors x initial times x strict x adversarial clock scripts (early/late sleeps, burns on the boundary, sync calls).",
        note="wall time is consumed between kernel steps and inside sleep() only"),
})

PENDING = {}


def main():
    props = [json.loads(l)["id"] for l in open(os.path.join(HERE, "properties.jsonl"))]
    checks = []
    for pid in props:
        if pid not in CHECKS:
            continue
        c = CHECKS[pid]
        checks.append({
            "property_id": pid,
            "quick_cmd": f"./check {pid} --tier quick",
            "thorough_cmd": f"./check {pid} --tier thorough",
            "evidence_file": f"evidence/{pid}.json",
            "replay_cmd_template": f"./check {pid} --replay {{path}}",
            "engine": "onl-rv",
            "level_claimed": {"category": c["level"], "text": c["text"], "design_ref": c["ref"]},
            "level_note": c["note"],
            "technique": c["technique"],
        })
    na = [{"property_id": p, "reason": PENDING.get(p, "check not built yet in this session (work in progress; see DESIGN.md section 4 for the planned monitor)")}
          for p in props if p not in CHECKS]
    man = {
        "version": 1,
        "setup_cmd": "/venv/bin/python tools/selftest.py",
        "hooks": {
            "guard": GUARD,
            "enable": "none needed: all taps are harness-side (Environment subclass overriding step(), instance-level wrappers on put/send_packet/out.put); "
                      f"{GUARD} is reserved and currently unused by /repo",
            "baseline_off_cmd": "cd /repo && /venv/bin/python -m pytest -ra -q -p no:cacheprovider --timeout=900 --continue-on-collection-errors",
            "source_commits": [],
            "add_only": True,
        },
        "engines": [{
            "name": "onl-rv", "path": "check",
            "serves_properties": [c["property_id"] for c in checks],
            "kind_free_text": "runtime monitoring: harness-side taps, online ledgers / shadow state, offline tap-log checkers and executable reference models, driven by seeded random and enumerated workloads in sharded worker processes",
        }],
        "checks": checks,
        "not_applicable": na,
        "notes": "All checks import onl from /repo's working tree (override with VERIF_REPO for scratch worktrees). "
                 "exit 0 held / 1 VIOLATION / 2 INCONCLUSIVE. Known findings: known_findings.json.",
    }
    with open(os.path.join(HERE, "MANIFEST.json"), "w") as f:
        json.dump(man, f, indent=1)
    print("checks:", len(checks), "not_applicable:", len(na))


if __name__ == "__main__":
    main()
