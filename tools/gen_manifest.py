#!/venv/bin/python
"""Regenerates /verif/MANIFEST.json from the table below (single source of truth)."""
import json
import os

HERE = os.path.dirname(os.path.dirname(os.path.abspath(__file__)))
GUARD = "ONL_EDU_VERIF"

CHECKS = {
    "C01": dict(
        technique="runtime monitor: shadow agenda popped at every observed occurrence + spec-kernel tape equality over random programs",
        level="exploration", ref="DESIGN.md 4/C01",
        text="Online monitor over executions of the real kernel: every trigger act of the harness feeds a shadow agenda "
             "(due, urgent<normal, trigger seq); every observed occurrence must be the shadow minimum at now == due. Second "
             "oracle: tape equality with an executable model of C01-C05. Held = silent on thousands of random programs whose "
             "occurrences coincide heavily; not a proof for unexplored programs.",
        note="trusts: the harness sees every trigger (programs use only timeouts, shared events, processes, interrupts, numeric stops); "
             "the spec kernel was written from the property text"),
    "C02": dict(
        technique="runtime monitor: per-event waiter ledger + escape-of-failure check + spec-kernel tape equality",
        level="exploration", ref="DESIGN.md 4/C02",
        text="Waiter ledger frozen when an event is processed; the following resumptions/callbacks must be exactly the registered "
             "waiters, in order, each with the event's own outcome; unhandled failures must escape run() in that very step.",
        note="trusts the harness's identification of waiters at the process/callback boundary"),
    "C03": dict(
        technique="runtime monitor: trace-digest equality across re-runs / interpreter processes / PYTHONHASHSEED values + split-plan transparency oracle against the uninterrupted tape",
        level="exploration", ref="DESIGN.md 4/C03",
        text="Each program is executed uninterrupted and under a random plan of run(until=number|event)/step() calls; after every "
             "stop now == t bit-exactly and the tape so far is exactly the prefix of the uninterrupted tape that the statement "
             "prescribes; at the end the tapes are equal. Digests of kernel programs and network scenarios are compared across "
             "fresh interpreters under several hash seeds.",
        note="the comparison covers a run up to and including its first escaping failure; hash seeds are sampled"),
    "C04": dict(
        technique="runtime monitor: interrupt ledger + shadow agenda + resumption-source check + spec-kernel tape equality",
        level="exploration", ref="DESIGN.md 4/C04",
        text="Every issued interrupt is followed to its single delivery (or discard with the victim): issue order, same instant, no "
             "ordinary occurrence in between; victims are only resumed by what they currently yield.",
        note="unique causes identify deliveries; dead/self refusal is modelled from the harness's knowledge of generator exit"),
    "C05": dict(
        technique="runtime monitor: closed-form trigger time / failure / value set recomputed from observed leaf completions + spec-kernel tape equality",
        level="exploration", ref="DESIGN.md 4/C05",
        text="For every waited condition tree the trigger instant (max/min recursion with failure short-circuit) and the exact "
             "value set (leaves processed before the condition's own processing step, operand order) are recomputed from probes "
             "and compared with what the waiter received.",
        note="orders that depend on the unobservable processing step of a nested condition are decided by the spec-kernel comparison only"),
    "C06": dict(
        technique="runtime monitor: request shadow + users-diff at every harness op and kernel step; capacity / grant-order / no-idle-slot (clock-advance hook) / preemption-decision invariants",
        level="exploration", ref="DESIGN.md 4/C06",
        text="Invariants evaluated on the real Resource/PriorityResource/PreemptiveResource at every kernel step and every clock "
             "advance over random request/release/cancel/with histories with dense coincidences; evictions are attributed through the "
             "Preempted cause the victim receives.",
        note="quantifier respected: one live request per process and resource; positive preemption expectation only for head requests"),
    "C07": dict(
        technique="runtime monitor: conservation ledger by item identity + order oracles + strict FCFS + head-of-queue-unsatisfiable check at every clock advance",
        level="exploration", ref="DESIGN.md 4/C07",
        text="Ledger over random put/get/cancel histories on Container/Store/PriorityStore/FilterStore with equal-but-distinct items; "
             "public level/items compared with the ledger after every op and kernel step; reference satisfiability predicate evaluated "
             "on the oldest pending put/get whenever the clock is about to advance.",
        note="FCFS read strictly (FilterStore getters exempt); filters depend on item fields only"),
}

PENDING = {}


def main():
    props = [json.loads(l)["id"] for l in open(os.path.join(HERE, "properties.jsonl"))]
    checks = []
    for pid in props:
        if pid not in CHECKS:
            continue
        c = CHECKS[pid]
        checks.append({
            "property_id": pid,
            "quick_cmd": f"./check {pid} --tier quick",
            "thorough_cmd": f"./check {pid} --tier thorough",
            "evidence_file": f"evidence/{pid}.json",
            "replay_cmd_template": f"./check {pid} --replay {{path}}",
            "engine": "onl-rv",
            "level_claimed": {"category": c["level"], "text": c["text"], "design_ref": c["ref"]},
            "level_note": c["note"],
            "technique": c["technique"],
        })
    na = [{"property_id": p, "reason": PENDING.get(p, "check not built yet in this session (work in progress; see DESIGN.md section 4 for the planned monitor)")}
          for p in props if p not in CHECKS]
    man = {
        "version": 1,
        "setup_cmd": "/venv/bin/python tools/selftest.py",
        "hooks": {
            "guard": GUARD,
            "enable": "none needed: all taps are harness-side (Environment subclass overriding step(), instance-level wrappers on put/send_packet/out.put); "
                      f"{GUARD} is reserved and currently unused by /repo",
            "baseline_off_cmd": "cd /repo && /venv/bin/python -m pytest -ra -q -p no:cacheprovider --timeout=900 --continue-on-collection-errors",
            "source_commits": [],
            "add_only": True,
        },
        "engines": [{
            "name": "onl-rv", "path": "check",
            "serves_properties": [c["property_id"] for c in checks],
            "kind_free_text": "runtime monitoring: harness-side taps, online ledgers / shadow state, offline tap-log checkers and executable reference models, driven by seeded random and enumerated workloads in sharded worker processes",
        }],
        "checks": checks,
        "not_applicable": na,
        "notes": "All checks import onl from /repo's working tree (override with VERIF_REPO for scratch worktrees). "
                 "exit 0 held / 1 VIOLATION / 2 INCONCLUSIVE. Known findings: known_findings.json.",
    }
    with open(os.path.join(HERE, "MANIFEST.json"), "w") as f:
        json.dump(man, f, indent=1)
    print("checks:", len(checks), "not_applicable:", len(na))


if __name__ == "__main__":
    main()
