#!/venv/bin/python
"""For every 'fix:' commit in /repo: make a scratch worktree (under /tmp, removed afterwards) with
just that commit reverted and confirm that the mapped checks report the violation again."""
import concurrent.futures as cf
import json
import os
import shutil
import subprocess
import sys
import tempfile

HERE = os.path.dirname(os.path.dirname(os.path.abspath(__file__)))
MAP = {
    "run(until=t) stops at exactly t": ["C03", "C01"],
    "run(until=event) no longer drops": ["C03"],
    "FilterStore removes the matched": ["C07"],
    "cancelling a queued put/get": ["C07"],
    "Port stamps perhop_time": ["C09"],
    "Port treats only qlimit=None": ["C09", "C08"],
    "Port releases byte_size": ["C09", "C08"],
    "PortMonitor no longer": ["C09"],
    "TwoRateTokenBucket.run takes": ["C11", "C08"],
    "TwoRateTokenBucket accepts an exactly": ["C11"],
    "FIBDemux accepts an empty": ["C18"],
    "Hub(env, endpoints)": ["C18"],
    "SP rescans": ["C13"],
    "WFQ stamps the first": ["C14"],
    "WFQ keeps a class active": ["C12", "C14", "C08"],
    "VirtualClock queues": ["C12", "C14", "C08"],
    "scheduler Monitor": ["C12"],
    "DRR queues and counts": ["C12", "C15", "C18"],
    "Timer accepts a scalar": ["C19", "C16"],
    "Timer.restart works": ["C19", "C16"],
    "TCPSink acknowledges": ["C16"],
    "stops the timers of all": ["C17", "C16"],
    "ignores outdated ACKs": ["C16"],
    "Wire keeps each entry": ["C10"],
    "WFQ sums the active weights": ["C03"],
}


def one(item):
    commit, subject, props = item
    d = tempfile.mkdtemp(prefix="onlrev_", dir="/tmp")
    try:
        subprocess.run(["rsync", "-a", "--exclude", "__pycache__", "/repo/", d + "/"], check=True)
        r = subprocess.run(["git", "-C", d, "revert", "--no-commit", commit], capture_output=True, text=True)
        if r.returncode != 0:
            return subject, {"error": "revert failed: " + r.stderr[-200:]}
        res = {}
        for pid in props:
            env = dict(os.environ, VERIF_REPO=d)
            p = subprocess.run([os.path.join(HERE, "check"), pid, "--noevidence"], cwd=HERE, env=env,
                               capture_output=True, text=True, timeout=3000)
            mechs = [l.split("mechanism=")[1].split(" ")[0] for l in p.stdout.splitlines() if "mechanism=" in l]
            res[pid] = {"rc": p.returncode, "mechs": mechs[:4]}
        return subject, res
    finally:
        shutil.rmtree(d, ignore_errors=True)


def main():
    log = subprocess.run(["git", "-C", "/repo", "log", "--format=%h %s"], capture_output=True, text=True).stdout.splitlines()
    items = []
    for l in log:
        h, s = l.split(" ", 1)
        if not s.startswith("fix:"):
            continue
        props = next((v for k, v in MAP.items() if k in s), None)
        if props:
            items.append((h, s, props))
    with cf.ThreadPoolExecutor(8) as ex:
        for subject, res in ex.map(one, items):
            ok = [p for p, r in res.items() if isinstance(r, dict) and r.get("rc") == 1]
            print(("REDETECTED " if ok else "NOT-DETECTED ") + subject[:70], json.dumps(res)[:300], flush=True)


if __name__ == "__main__":
    main()
