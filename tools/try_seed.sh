#!/bin/bash
# usage: tools/try_seed.sh <seeded id, e.g. C01-5> [PID] [tier]   -- apply seeded/<id>/patch.diff to a scratch copy, run the check
id=$1; pid=${2:-${id%%-*}}; tier=${3:-quick}
cd "$(dirname "$0")/.."
d=$(mktemp -d /tmp/onlseed_XXXX); rsync -a --exclude __pycache__ /repo/ $d/
( cd $d && git apply /verif/seeded/$id/patch.diff ) || { echo "patch failed"; rm -rf $d; exit 3; }
VERIF_REPO=$d ./check $pid --tier $tier --noevidence | grep -E "mechanism=|^HELD|^VIOLATED|^INCONCLUSIVE" | cut -c1-220
rm -rf $d
