"""Our own deliberate property-breaking one-liners (DESIGN.md section 6).  Each must keep the 119
repository tests green; tools/mutate.py verifies that and which checks catch it.
(name, file, old, new, [properties expected to catch it])"""
MUTANTS = [
    # ---- C01
    ("c01-no-eid-tiebreak", "onl/sim/core.py", "(self._now + delay, priority, next(self._eid), event))",
     "(self._now + delay, priority, -next(self._eid), event))", ["C01", "C04"]),
    ("c01-timeout-urgent", "onl/sim/events.py", "env.schedule(self, NORMAL, delay)", "env.schedule(self, URGENT, delay)", ["C01"]),
    ("c01-initialize-normal", "onl/sim/events.py", "        self._ok = True\n        env.schedule(self, URGENT)",
     "        self._ok = True\n        env.schedule(self, NORMAL)", ["C01", "C04"]),
    ("c01-zero-delay-refused", "onl/sim/events.py", "        if delay < 0:\n            raise ValueError(f'Negative delay {delay}')",
     "        if delay < 0 or (delay == 0 and isinstance(delay, float) and str(delay) == '-0.0'):\n            raise ValueError(f'Negative delay {delay}')", ["C01"]),
    ("c01-until-stop-normal", "onl/sim/core.py", "heappush(self._queue, (at, URGENT, next(self._eid), until))",
     "heappush(self._queue, (at, NORMAL, next(self._eid), until))", ["C01", "C03"]),
    # ---- C02
    ("c02-skip-last-callback-when-3", "onl/sim/core.py", "        for callback in callbacks:\n            callback(event)",
     "        for callback in (callbacks[:-1] if len(callbacks) > 3 else callbacks):\n            callback(event)", ["C02"]),
    ("c02-succeed-no-guard", "onl/sim/events.py", "    def succeed(self, value: Optional[Any] = None) -> 'Event':\n        # schedule the event in environment\n        if self._value is not PENDING:",
     "    def succeed(self, value: Optional[Any] = None) -> 'Event':\n        # schedule the event in environment\n        if self._value is not PENDING and self.callbacks is None:", ["C02"]),
    ("c02-exception-args-dropped", "onl/sim/events.py", "                    exc = type(event._value)(*event._value.args)\n                    exc.__cause__ = event._value\n                    event = self._generator.throw(exc)",
     "                    exc = type(event._value)(*event._value.args[:1])\n                    exc.__cause__ = event._value\n                    event = self._generator.throw(exc)", ["C02"]),
    ("c02-defuse-on-callback", "onl/sim/core.py", "        if not event._ok and not hasattr(event, '_defused'):",
     "        if not event._ok and not hasattr(event, '_defused') and not callbacks:", ["C02"]),
    # ---- C04
    ("c04-no-detach", "onl/sim/events.py", "        self.process._target.callbacks.remove(self.process._resume)\n",
     "        pass\n", ["C04"]),
    ("c04-interruption-normal", "onl/sim/events.py", "        self.process = process\n        self.env.schedule(self, URGENT)",
     "        self.process = process\n        self.env.schedule(self, NORMAL)", ["C04", "C01"]),
    ("c04-no-dead-guard", "onl/sim/events.py", "        if self.process.triggered:\n            return\n", "        if self.process.triggered and False:\n            return\n", ["C04"]),
    ("c04-self-interrupt-allowed", "onl/sim/events.py", "        if process is self.env.active_process:\n            raise RuntimeError('A process is not allowed to interrupt itself.')",
     "        if process is self.env.active_process and process._target is None:\n            raise RuntimeError('A process is not allowed to interrupt itself.')", ["C04"]),
    # ---- C05
    ("c05-anyof-needs-two", "onl/sim/events.py", "        return count > 0 or len(events) == 0", "        return count > (1 if len(events) > 3 else 0) or len(events) == 0", ["C05"]),
    ("c05-value-at-trigger", "onl/sim/events.py", "            elif event.callbacks is None:\n                value.events.append(event)",
     "            elif event.triggered:\n                value.events.append(event)", ["C05"]),
    ("c05-failure-not-defused", "onl/sim/events.py", "            event._defused = True\n            self.fail(event._value)", "            self.fail(event._value)", ["C05"]),
    ("c05-late-operand-fails-cond", "onl/sim/events.py", "        if self._value is not PENDING:\n            return\n\n        self._count += 1",
     "        if self._value is not PENDING and (event._ok or self.callbacks is None):\n            return\n\n        self._count += 1", ["C05"]),
    ("c05-mixed-env-allowed-for-anyof", "onl/sim/events.py", "            if self.env != event.env:", "            if self.env != event.env and evaluate is not Condition.any_events:", ["C05"]),
]

MUTANTS += [
    # ---- C03
    ("c03-until-le-allowed", "onl/sim/core.py", "                if at <= self.now:", "                if at < self.now:", ["C03"]),
    # ---- C06
    ("c06-preempt-ge", "onl/sim/resources/resource.py", "            if preempt.key > event.key:", "            if preempt.key >= event.key:", ["C06"]),
    ("c06-sort-priority-only", "onl/sim/resources/resource.py", "        super().sort(key=lambda e: e.key)", "        super().sort(key=lambda e: e.key[0])", ["C06"]),
    ("c06-capacity-le", "onl/sim/resources/resource.py", "        if len(self._users) < self.capacity:", "        if len(self._users) <= self.capacity and len(self.put_queue) > 2:", ["C06"]),
    ("c06-evict-best-not-worst", "onl/sim/resources/resource.py", "            preempt = sorted(self.users, key=lambda e: e.key)[-1]", "            preempt = sorted(self.users, key=lambda e: e.key[:2])[-1]", ["C06"]),
    ("c06-usage-since-request-time", "onl/sim/resources/resource.py", "                        usage_since=preempt.usage_since,", "                        usage_since=preempt.time,", ["C06"]),
    # ---- C07
    ("c07-container-put-lt", "onl/sim/resources/container.py", "        if self._capacity - self._level >= event.amount:", "        if self._capacity - self._level > event.amount:", ["C07"]),
    ("c07-store-pop-last", "onl/sim/resources/store.py", "            event.succeed(self.items.pop(0))", "            event.succeed(self.items.pop(0 if len(self.items) < 3 else -1))", ["C07"]),
    ("c07-no-trigger-get-subscription", "onl/sim/resources/base.py", "        self.callbacks.append(resource._trigger_get)\n        resource._trigger_put(None)",
     "        if len(resource.put_queue) < 3:\n            self.callbacks.append(resource._trigger_get)\n        resource._trigger_put(None)", ["C07"]),
    ("c07-cancel-no-rescan", "onl/sim/resources/base.py", "            self.resource.put_queue.remove(self)\n            # Requests queued behind the cancelled one may be satisfiable now.\n            self.resource._trigger_put(None)",
     "            self.resource.put_queue.remove(self)", ["C07"]),
    ("c07-filterstore-remove-equal", "onl/sim/resources/store.py", "                del self.items[index]", "                self.items.remove(item)", ["C07"]),
    ("c07-store-capacity-plus-one", "onl/sim/resources/store.py", "    def _do_put(self, event: StorePut) -> bool:\n        if len(self.items) < self._capacity:\n            self.items.append(event.item)",
     "    def _do_put(self, event: StorePut) -> bool:\n        if len(self.items) < self._capacity + (len(self.put_queue) > 2):\n            self.items.append(event.item)", ["C07"]),
    ("c07-container-get-scan-continues", "onl/sim/resources/container.py", "            self._level -= event.amount\n            event.succeed()\n            return True\n        else:\n            return False",
     "            self._level -= event.amount\n            event.succeed()\n            return True\n        else:\n            return True", ["C07"]),
]

MUTANTS += [
    # ---- C09
    ("c09-qlimit-minus-1-dropped", "onl/netdev/port.py", "len(self.store.items) >= self.qlimit - 1", "len(self.store.items) >= self.qlimit", ["C09"]),
    ("c09-bytes-ge", "onl/netdev/port.py", "byte_count > self.qlimit", "byte_count >= self.qlimit", ["C09"]),
    ("c09-rate-factor", "onl/netdev/port.py", "yield env.timeout(packet.size * 8 / self.rate)", "yield env.timeout(packet.size * 8.0 / self.rate if packet.size < 1000 else packet.size / self.rate)", ["C09"]),
    ("c09-drop-not-counted-when-empty", "onl/netdev/port.py", "            self.packets_dropped += 1\n            if self.debug:\n                print(\n                    f\"Packet dropped",
     "            self.packets_dropped += 1 if self.store.items else 0\n            if self.debug:\n                print(\n                    f\"Packet dropped", ["C09"]),
    ("c09-stamp-now-plus", "onl/netdev/port.py", "            packet.perhop_time[self.element_id] = self.env.now", "            packet.perhop_time[self.element_id] = packet.time", ["C09"]),
    ("c09-red-ewma-alpha", "onl/netdev/red_port.py", "        alpha = 2 ** (-self.weight_factor)", "        alpha = 2 ** (-self.weight_factor - 1)", ["C09"]),
    ("c09-red-drop-below-min", "onl/netdev/red_port.py", "        else:\n            self.byte_size += packet.size\n            self.store.put(packet)\n",
     "        elif random.uniform(0, 1) < 0.02:\n            self.packets_dropped += 1\n        else:\n            self.byte_size += packet.size\n            self.store.put(packet)\n", ["C09"]),
    ("c09-red-prob-halved", "onl/netdev/red_port.py", "                * self.max_probability\n            )", "                * self.max_probability / 2\n            )", ["C09"]),
    ("c09-red-qlimit-gt", "onl/netdev/red_port.py", "        if self.average_queue_size >= self.qlimit:", "        if self.average_queue_size > self.qlimit + 0.5:", ["C09"]),
    ("c09-monitor-excluded-wrong", "onl/netdev/port_monitor.py", "                total = len(self.port.store.items)\n\n", "                total = len(self.port.store.items) + self.port.busy\n\n", ["C09"]),
    # ---- C10
    ("c10-loss-inverted", "onl/netdev/wire.py", "random.uniform(0, 1) >= self.loss_rate", "random.uniform(0, 1) < self.loss_rate", ["C10"]),
    ("c10-delay-not-reduced", "onl/netdev/wire.py", "yield env.timeout(delay - queued_time)", "yield env.timeout(delay)", ["C10"]),
    ("c10-cable-shared-wire", "onl/netdev/wire.py", "        dev2.out = self.wire2\n        self.wire2.out = dev1", "        dev2.out = self.wire1\n        self.wire2.out = dev1", ["C10"]),
    ("c10-delay-drawn-at-put", "onl/netdev/wire.py", "        self.store.put((packet, self.env.now))", "        self.store.put((packet, self.env.now + (0.25 if self.store.items and len(self.store.items) > 3 else 0)))", ["C10"]),
    ("c10-entry-time-read-from-packet", "onl/netdev/wire.py", "queued_time = self.env.now - entered", "queued_time = self.env.now - packet.current_time", ["C10"]),
]

MUTANTS += [
    # ---- C11
    ("c11-no-cap", "onl/netdev/token_bucket.py", "            self.current_bucket = min(\n                self.bucket_size,\n                self.current_bucket + self.rate * (now - self.update_time) / 8.0,\n            )",
     "            self.current_bucket = (\n                self.current_bucket + self.rate * (now - self.update_time) / 8.0\n            )", ["C11"]),
    ("c11-refill-no-div8", "onl/netdev/token_bucket.py", "self.current_bucket + self.rate * (now - self.update_time) / 8.0,", "self.current_bucket + self.rate * (now - self.update_time) / 4.0,", ["C11"]),
    ("c11-wait-leaves-tokens", "onl/netdev/token_bucket.py", "                self.current_bucket = 0.0\n                self.update_time = env.now\n            else:",
     "                self.current_bucket = 0.0\n            else:", ["C11"]),
    ("c11-peak-ignored-small", "onl/netdev/token_bucket.py", "            if self.peak:\n", "            if self.peak and packet.size > 200:\n", ["C11"]),
    ("c11-trtb-colours-swapped", "onl/netdev/two_level_token_bucket.py", "                    self.current_bucket_commit = 0.0\n                    packet.color = \"yellow\"\n                    self.update_time = env.now\n                else:\n                    self.current_bucket_commit -= packet.size\n                    self.current_bucket_peak -= packet.size\n                    packet.color = \"green\"",
     "                    self.current_bucket_commit = 0.0\n                    packet.color = \"green\"\n                    self.update_time = env.now\n                else:\n                    self.current_bucket_commit -= packet.size\n                    self.current_bucket_peak -= packet.size\n                    packet.color = \"yellow\"", ["C11"]),
    ("c11-trtb-red-no-wait", "onl/netdev/two_level_token_bucket.py", "                        (packet.size - self.current_bucket_peak) * 8.0 / self.pir\n                    )",
     "                        (packet.size - self.current_bucket_peak) * 4.0 / self.pir\n                    )", ["C11"]),
    ("c11-trtb-green-not-debited", "onl/netdev/two_level_token_bucket.py", "                    self.current_bucket_commit -= packet.size\n                    self.current_bucket_peak -= packet.size\n",
     "                    self.current_bucket_peak -= packet.size\n", ["C11"]),
    ("c11-trtb-commit-refill-double", "onl/netdev/two_level_token_bucket.py", "                self.current_bucket_commit + self.cir * (now - self.update_time) / 8.0,", "                self.current_bucket_commit + self.cir * (now - self.update_time) / 4.0,", ["C11"]),
]

MUTANTS += [
    # ---- C12
    ("c12-token-only-when-one", "onl/scheduler/base.py", "        if self.total_packets == 0:\n            self.packets_available.put(True)\n        self.add_packet_to_queue(packet)",
     "        self.add_packet_to_queue(packet)\n        if self.total_packets == 2:\n            self.packets_available.put(True)", ["C12"]),
    ("c12-counters-before-timeout", "onl/scheduler/base.py", "        self.current_packet = packet\n        yield self.env.timeout(packet.size * 8.0 / self.rate)\n        flow_id = packet.flow_id\n        self.queue_count[flow_id] -= 1",
     "        self.current_packet = packet\n        flow_id = packet.flow_id\n        self.queue_count[flow_id] -= 1\n        yield self.env.timeout(packet.size * 8.0 / self.rate)", ["C12"]),
    ("c12-tx-time-rounding", "onl/scheduler/base.py", "        yield self.env.timeout(packet.size * 8.0 / self.rate)\n        flow_id", "        yield self.env.timeout(round(packet.size * 8.0 / self.rate, 3))\n        flow_id", ["C12"]),
    ("c12-byte-counter-off", "onl/scheduler/base.py", "        self.queue_byte_size[flow_id] -= packet.size", "        self.queue_byte_size[flow_id] -= packet.size if packet.size < 1000 else packet.size - 1", ["C12"]),
    ("c12-wfq-lifo-same-flow", "onl/scheduler/wfq.py", "        self.store.put(PriorityItem((self.finish_times[class_id], now), packet))", "        self.store.put(PriorityItem((self.finish_times[class_id], -now), packet))", ["C12", "C14"]),
    # ---- C13
    ("c13-ascending", "onl/scheduler/sp.py", "key=lambda item: item[1], reverse=True)", "key=lambda item: item[1], reverse=False)", ["C13"]),
    ("c13-no-rescan", "onl/scheduler/sp.py", "                    # rescan from the highest priority after every transmission\n                    break\n", "", ["C13"]),
    ("c13-skip-top-when-long", "onl/scheduler/sp.py", "                    if store.size() == 0:\n                        continue", "                    if store.size() == 0 or (store.size() > 4 and prio == self.priorities[0][1]):\n                        continue", ["C13", "C12"]),
    # ---- C14
    ("c14-stamp-min", "onl/scheduler/wfq.py", "        self.finish_times[class_id] = max(\n            self.finish_times[class_id], self.vtime\n        )", "        self.finish_times[class_id] = min(\n            self.finish_times[class_id], self.vtime\n        )", ["C14"]),
    ("c14-F-not-reset", "onl/scheduler/wfq.py", "        for class_id in self.weights.keys():\n            self.finish_times[class_id] = 0.0", "        for class_id in self.weights.keys():\n            self.finish_times.setdefault(class_id, 0.0)", ["C14"]),
    ("c14-first-stamp-skipped", "onl/scheduler/wfq.py", "        else:\n            self.update_vtime()\n        self.finish_times[class_id] = max(", "        else:\n            self.update_vtime()\n        if len(self.active_set): self.finish_times[class_id] = max(", ["C14"]),
    ("c14-weight-ignored-in-stamp", "onl/scheduler/wfq.py", ") + packet.size * 8.0 / (self.rate * self.weights[class_id])", ") + packet.size * 8.0 / (self.rate * max(1, self.weights[class_id]))", ["C14"]),
    ("c14-vc-max-dropped", "onl/scheduler/virtual_clock.py", "        self.aux_vc[class_id] = max(now, self.aux_vc[class_id])", "        self.aux_vc[class_id] = self.aux_vc[class_id]", ["C14"]),
    ("c14-vc-tie-by-size", "onl/scheduler/virtual_clock.py", "PriorityItem((self.aux_vc[class_id], now), packet)", "PriorityItem((self.aux_vc[class_id], -packet.size), packet)", ["C14", "C12"]),
    # ---- C15
    ("c15-quantum-not-scaled", "onl/scheduler/drr.py", "self.MIN_QUANTUM * weight / min_weight", "self.MIN_QUANTUM * weight", ["C15"]),
    ("c15-credit-not-reset", "onl/scheduler/drr.py", "                            if self.class_count[class_id] == 0:\n                                self.deficit[class_id] = 0.0", "                            pass", ["C15"]),
    ("c15-wrr-weight-plus-one", "onl/scheduler/wrr.py", "                for _ in range(weight):", "                for _ in range(weight + 1):", ["C15"]),
    ("c15-rr-double-serve", "onl/scheduler/rr.py", "                if self.queue_count[flow_id] > 0:", "                while self.queue_count[flow_id] > 3:\n                    packet = yield self.stores.get(flow_id).get()\n                    yield env.process(self.send_packet(packet))\n                if self.queue_count[flow_id] > 0:", ["C15"]),
    ("c15-drr-overdraw", "onl/scheduler/drr.py", "                        if packet.size <= self.deficit[class_id]:\n                            yield env.process", "                        if packet.size <= self.deficit[class_id] + 200:\n                            yield env.process", ["C15"]),
    ("c15-drr-quantum-every-round-even-empty", "onl/scheduler/drr.py", "                    if count > 0:\n                        self.deficit[class_id] += self.quantum[class_id]", "                    if count >= 0:\n                        self.deficit[class_id] += self.quantum[class_id]", ["C15"]),
    ("c15-wrr-skip-last-class-when-busy", "onl/scheduler/wrr.py", "                    if self.queue_count[flow_id] > 0:", "                    if self.queue_count[flow_id] > 0 and not (self.total_packets > 6 and flow_id == list(self.weights)[-1]):", ["C15", "C12"]),
]

MUTANTS += [
    # ---- C19
    ("c19-no-stopped-test", "onl/utils/timer.py", "                if not self.stopped:\n                    self.timeout_callback", "                if not self.stopped or self.auto_restart:\n                    self.timeout_callback", ["C19"]),
    ("c19-expire-not-rebased", "onl/utils/timer.py", "        self.start_time = self.env.now\n        self.timeout = timeout\n        self.expire_time = self.start_time + timeout", "        self.timeout = timeout\n        self.expire_time = self.start_time + timeout", ["C19"]),
    ("c19-restart-keeps-old-proc", "onl/utils/timer.py", "            self.proc.interrupt(\"restart timer\")\n            self.proc = self.env.process(self.run(self.env))", "            self.proc = self.env.process(self.run(self.env))", ["C19"]),
    ("c19-auto-rearm-from-expiry", "onl/utils/timer.py", "                        self.expire_time = env.now + self.timeout", "                        self.expire_time = self.start_time + 2 * self.timeout", ["C19"]),
    ("c19-args-tuple-not-unwrapped", "onl/utils/timer.py", "        elif not isinstance(args, (list, tuple)):", "        elif not isinstance(args, (list, tuple, str)):", ["C19"]),
    ("c19-stop-does-not-pull-expiry", "onl/utils/timer.py", "        self.stopped = True\n        self.expire_time = self.env.now", "        self.stopped = self.expire_time > self.env.now", ["C19"]),
]

MUTANTS += [
    # ---- C16
    ("c16-timers-only-named-segment", "onl/packet/tcp_generator.py", "if s < ackno or s == ack.packet_id]:", "if s == ack.packet_id]:", ["C16", "C17"]),
    ("c16-resend-unknown-raises", "onl/packet/tcp_generator.py", "        if resent_pkt is None:\n", "        if resent_pkt is None and seqno < 0:\n", ["C16"]),
    ("c16-sink-first-range-any-start", "onl/packet/tcp_sink.py", "        if self.recv_buffer[0][0] == 0:", "        if self.recv_buffer[0][0] <= 512:", ["C16"]),
    ("c16-sink-merge-strict", "onl/packet/tcp_sink.py", "            if merge_stats and start <= merge_stats[-1][1]:", "            if merge_stats and start < merge_stats[-1][1]:", ["C16"]),
    ("c16-rto-timer-not-restarted", "onl/packet/tcp_generator.py", "        self.rto *= 2\n        self.timers[packet_id].restart(self.rto)", "        self.rto *= 2", ["C16", "C17"]),
    ("c16-no-wakeup-on-ack-beyond-8", "onl/packet/tcp_generator.py", "            self.cwnd_avaialbe.put(True)", "            if ackno != 8 * self.mss:\n                self.cwnd_avaialbe.put(True)", ["C16"]),
    # ---- C17
    ("c17-ssthresh-quarter", "onl/packet/tcp_generator.py", "        self.ssthresh = max(2 * self.mss, self.cwnd / 2)", "        self.ssthresh = max(2 * self.mss, self.cwnd / 4)", ["C17"]),
    ("c17-fast-retransmit-on-second", "onl/packet/tcp_generator.py", "        if self.dupack == 3:\n", "        if self.dupack == 2:\n", ["C17"]),
    ("c17-rtt-gain", "onl/packet/tcp_generator.py", "            self.rtt_estimate += 0.125 * sample_err", "            self.rtt_estimate += 0.25 * sample_err", ["C17"]),
    ("c17-guard-loose", "onl/packet/tcp_generator.py", "            if self.next_seq + self.mss <= min(", "            if self.next_seq <= min(", ["C17"]),
    ("c17-ca-growth", "onl/packet/tcp_generator.py", "            self.cwnd += self.mss * self.mss / self.cwnd\n", "            self.cwnd += self.mss / 2\n", ["C17"]),
    ("c17-timeout-no-doubling", "onl/packet/tcp_generator.py", "        self.rto *= 2\n", "        self.rto *= 1\n", ["C17"]),
    ("c17-more-dupacks-no-inflate", "onl/packet/tcp_generator.py", "        \"\"\"Actions to be taken when more than three consecutive dupacks are received.\"\"\"\n        self.cwnd += self.mss", "        \"\"\"Actions to be taken when more than three consecutive dupacks are received.\"\"\"\n        self.cwnd += 0", ["C17"]),
    ("c17-timeout-cwnd-half", "onl/packet/tcp_generator.py", "        \"\"\"Actions to be taken when a timer expired.\"\"\"\n        self.cwnd = self.mss\n\n    def dupack_over", "        \"\"\"Actions to be taken when a timer expired.\"\"\"\n        self.cwnd = max(self.mss, self.cwnd / 2)\n\n    def dupack_over", ["C17"]),
    ("c17-cubic-constant", "onl/packet/tcp_generator.py", "        self.C = 0.4", "        self.C = 0.8", ["C17"]),
    ("c17-rto-4-to-2", "onl/packet/tcp_generator.py", "            self.rto = self.rtt_estimate + 4 * self.est_deviation", "            self.rto = self.rtt_estimate + 2 * self.est_deviation", ["C17"]),
    ("c17-slow-start-lt", "onl/packet/tcp_generator.py", "class TCPReno(CongestionControl):\n    def ack_received(self, rtt: float = 0, current_time: float = 0):\n        if self.cwnd <= self.ssthresh:", "class TCPReno(CongestionControl):\n    def ack_received(self, rtt: float = 0, current_time: float = 0):\n        if self.cwnd < self.ssthresh:", ["C17"]),
]

MUTANTS += [
    # ---- C20
    ("c20-strict-ge", "onl/sim/rt.py", "        if self.strict and monotonic() - real_time > self.factor:", "        if self.strict and monotonic() - real_time >= self.factor:", ["C20"]),
    ("c20-sleep-not-looped", "onl/sim/rt.py", "        while True:\n            delta = real_time - monotonic()\n            if delta <= 0:\n                break\n            sleep(delta)",
     "        delta = real_time - monotonic()\n        if delta > 0:\n            sleep(delta)", ["C20"]),
    ("c20-env-start-ignored", "onl/sim/rt.py", "        real_time = self.real_start + (evt_time - self.env_start) * self.factor", "        real_time = self.real_start + evt_time * self.factor", ["C20"]),
    ("c20-sync-noop-after-start", "onl/sim/rt.py", "        self.real_start = monotonic()\n\n    def step", "        if not self._queue or self._now == self.env_start:\n            self.real_start = monotonic()\n\n    def step", ["C20"]),
    ("c20-nonstrict-raises-when-very-late", "onl/sim/rt.py", "        if self.strict and monotonic() - real_time > self.factor:", "        if (self.strict or monotonic() - real_time > 8 * self.factor) and monotonic() - real_time > self.factor:", ["C20"]),
    ("c20-factor-applied-twice-when-lt1", "onl/sim/rt.py", "(evt_time - self.env_start) * self.factor", "(evt_time - self.env_start) * (self.factor if self.factor >= 1 else self.factor * self.factor)", ["C20"]),
    # ---- C18
    ("c18-flowdemux-off-by-one", "onl/netdev/demux.py", "            self.outs[flow_id].put(packet)", "            self.outs[flow_id - 1 if flow_id == len(self.outs) - 1 and flow_id > 1 else flow_id].put(packet)", ["C18"]),
    ("c18-fib-before-ends", "onl/netdev/demux.py", "        if flow_id in self.ends:", "        if flow_id in self.ends and flow_id not in self._fib:", ["C18"]),
    ("c18-hub-no-source-test", "onl/netdev/hub.py", "            if endpoint.element_id == packet.src:\n                continue\n", "", ["C18"]),
    ("c18-splitter-no-copy", "onl/netdev/splitter.py", "                out.put(copy(packet))", "                out.put(packet)", ["C18"]),
    ("c18-fib-uses-z-table", "onl/topo/fattree.py", "self.topo.nodes[a][\"flow_to_port\"][flow.fid] = self.topo.nodes[a][\"nexthop_to_port\"][z]", "self.topo.nodes[a][\"flow_to_port\"][flow.fid] = self.topo.nodes[z][\"nexthop_to_port\"].get(a, 0)", ["C18"]),
    ("c18-reverse-fib-skips-last-hop", "onl/topo/fattree.py", "                if tcp:\n", "                if tcp and z != flow.path[-1]:\n", ["C18"]),
    ("c18-core-wiring", "onl/topo/fattree.py", "aggr_node = n_core + (core_node // (k // 2)) + (k * pod)", "aggr_node = n_core + (core_node // (k // 2)) + (k * (pod if k < 6 else pod % (k - 1)))", ["C18"]),
    ("c18-default-out-dropped-on-indexerror", "onl/netdev/demux.py", "            except (KeyError, IndexError, ValueError) as exc:", "            except (KeyError, ValueError) as exc:", ["C18"]),
]

MUTANTS += [
    # ---- C08
    ("c08-port-drops-size-class", "onl/netdev/port.py", "            if self.out:\n                self.out.put(packet)", "            if self.out and not (packet.size == 1000 and self.byte_size > 1500):\n                self.out.put(packet)", ["C08", "C09"]),
    ("c08-wire-duplicates", "onl/netdev/wire.py", "                assert self.out\n                self.out.put(packet)", "                assert self.out\n                self.out.put(packet)\n                if self.packets_rec % 17 == 0 and len(self.store.items) == 2:\n                    self.out.put(packet)", ["C08", "C10"]),
    ("c08-tb-drops-oversize", "onl/netdev/token_bucket.py", "            self.out.put(packet)\n\n            self.packets_sent += 1", "            if packet.size <= 10 * self.bucket_size:\n                self.out.put(packet)\n\n            self.packets_sent += 1", ["C08", "C11"]),
    ("c08-sched-rewrites-time", "onl/scheduler/base.py", "        self.current_packet = packet\n        yield", "        self.current_packet = packet\n        packet.time = packet.time if packet.size < 1000 else self.env.now\n        yield", ["C08"]),
    ("c08-generator-ids-from-zero", "onl/packet/dist_generator.py", "            self.packets_send += 1\n            packet = Packet(\n                env.now,\n                self.size_dist(),\n                self.packets_send,", "            self.packets_send += 1\n            packet = Packet(\n                env.now,\n                self.size_dist(),\n                self.packets_send - 1,", ["C08"]),
    ("c08-generator-size-before-wait", "onl/packet/dist_generator.py", "        while env.now < self.finish:\n            yield env.timeout(self.arrival_dist())\n", "        while env.now < self.finish:\n            _sz = self.arrival_dist()\n            yield env.timeout(_sz if env.now > 0 else _sz / 2)\n", ["C08"]),
    ("c08-sink-waits-from-now", "onl/packet/sink.py", "            self.waits[rec_index].append(self.env.now - packet.time)", "            self.waits[rec_index].append(self.env.now - packet.current_time)", ["C08"]),
    ("c08-sink-interarrival-first", "onl/packet/sink.py", "                self.arrivals[rec_index][-1] = now - self.last_arrival[rec_index]", "                self.arrivals[rec_index][-1] = now - (self.last_arrival[rec_index] or now)", ["C08"]),
    ("c08-sink-bytes-by-flow-always", "onl/packet/sink.py", "        self.bytes_received[rec_index] += packet.size", "        self.bytes_received[packet.flow_id] += packet.size", ["C08"]),
    ("c08-switch-wrong-port-list", "onl/netdev/switch.py", "        self.demux = FIBDemux(fib=None, outs=self.egress_ports, default_out=None)", "        self.demux = FIBDemux(fib=None, outs=self.egress_ports[::-1], default_out=None)", ["C08", "C18"]),
]

MUTANTS += [
    # ---- after the seventh round of seeded changes: attributes nothing in the code should look at
    ("c12-tx-time-from-payload", "onl/scheduler/base.py", "yield self.env.timeout(packet.size * 8.0 / self.rate)",
     "yield self.env.timeout((len(packet.payload) if isinstance(packet.payload, bytes) else packet.size) * 8.0 / self.rate)", ["C12"]),
]
