#!/bin/bash
# usage: tools/try_patch.sh <patch file> <PID> [tier]   -- apply a patch to a scratch copy of /repo, run one check against it
pf=$1; pid=$2; tier=${3:-quick}
cd "$(dirname "$0")/.."
d=$(mktemp -d /tmp/onlseed_XXXX); rsync -a --exclude __pycache__ /repo/ $d/
( cd $d && git apply $pf ) || { echo "patch failed"; rm -rf $d; exit 3; }
VERIF_REPO=$d ./check $pid --tier $tier --noevidence | grep -E "mechanism=|^HELD|^VIOLATED|^INCONCLUSIVE" | cut -c1-200
rm -rf $d
