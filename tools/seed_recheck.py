#!/venv/bin/python
"""Re-runs, for every kept seeded change, the quick check of its property against a scratch copy of
/repo with the patch applied (under /tmp, removed afterwards) and reports whether it is (still) caught.
usage: tools/seed_recheck.py [-j N] [--tier quick] [--update] [ids...]
--update records the result in seeded/<id>/meta.json (the result at ingest time is kept as checks_at_ingest)."""
import argparse
import concurrent.futures as cf
import glob
import json
import os
import shutil
import subprocess
import tempfile

HERE = os.path.dirname(os.path.dirname(os.path.abspath(__file__)))


SEED = None


def one(d, tier, update=False):
    k = os.path.basename(d)
    m = json.load(open(d + "/meta.json"))
    pid = m["property"]
    s = tempfile.mkdtemp(prefix="onlseed_", dir="/tmp")
    try:
        subprocess.run(["rsync", "-a", "--exclude", "__pycache__", "/repo/", s + "/"], check=True)
        r = subprocess.run(["git", "apply", d + "/patch.diff"], cwd=s, capture_output=True, text=True)
        if r.returncode != 0:
            return k, "PATCH-DOES-NOT-APPLY", []
        env = dict(os.environ, VERIF_REPO=s)
        if SEED is not None:
            env["VERIF_SEED"] = SEED
        p = subprocess.run([os.path.join(HERE, "check"), pid, "--tier", tier, "--noevidence"], cwd=HERE, env=env,
                           capture_output=True, text=True, timeout=3400)
        mechs = [l.split("mechanism=")[1].split(" (")[0] for l in p.stdout.splitlines() if "mechanism=" in l]
        hits = sum(int(l.split("mechanism=")[1].split(" (")[1].split("x)")[0]) for l in p.stdout.splitlines()
                   if "mechanism=" in l and "x)" in l)
        if update and p.returncode in (0, 1):
            m = json.load(open(d + "/meta.json"))
            if "checks_at_ingest" not in m:
                m["checks_at_ingest"] = m.get("checks", {})
                m["caught_by_at_ingest"] = m.get("caught_by", [])
            key = pid if tier == "quick" else pid + ":" + tier
            m.setdefault("checks", {})[key] = {"rc": p.returncode, "tier": tier, "mechanisms": sorted(set(mechs))[:8]}
            m["caught_by"] = sorted({c.split(":")[0] for c, v in m["checks"].items() if v["rc"] == 1})
            json.dump(m, open(d + "/meta.json", "w"), indent=1)
        return k, {1: "CAUGHT", 0: "MISSED", 2: "INCONCLUSIVE"}.get(p.returncode, str(p.returncode)), ["hits=%d" % hits] + mechs[:3]
    finally:
        shutil.rmtree(s, ignore_errors=True)


def main():
    ap = argparse.ArgumentParser()
    ap.add_argument("-j", type=int, default=6)
    ap.add_argument("--tier", default="quick")
    ap.add_argument("--update", action="store_true")
    ap.add_argument("ids", nargs="*")
    ap.add_argument("--seed")
    a = ap.parse_args()
    global SEED
    SEED = a.seed
    dirs = sorted(glob.glob(os.path.join(HERE, "seeded", "C*-*")))
    if a.ids:
        dirs = [d for d in dirs if os.path.basename(d) in a.ids or os.path.basename(d).split("-")[0] in a.ids]
    bad = 0
    with cf.ThreadPoolExecutor(a.j) as ex:
        for k, st, mechs in ex.map(lambda d: one(d, a.tier, a.update), dirs):
            if st != "CAUGHT":
                bad += 1
            print(f"{st:12} {k:8} {mechs}", flush=True)
    print(f"{len(dirs)} seeded changes, {bad} not caught")


if __name__ == "__main__":
    main()
