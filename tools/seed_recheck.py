#!/venv/bin/python
"""Re-runs, for every kept seeded change, the quick check of its property against a scratch copy of
/repo with the patch applied (under /tmp, removed afterwards) and reports whether it is (still) caught.
usage: tools/seed_recheck.py [-j N] [--tier quick]"""
import argparse
import concurrent.futures as cf
import glob
import json
import os
import shutil
import subprocess
import tempfile

HERE = os.path.dirname(os.path.dirname(os.path.abspath(__file__)))


def one(d, tier):
    k = os.path.basename(d)
    m = json.load(open(d + "/meta.json"))
    pid = m["property"]
    s = tempfile.mkdtemp(prefix="onlseed_", dir="/tmp")
    try:
        subprocess.run(["rsync", "-a", "--exclude", "__pycache__", "/repo/", s + "/"], check=True)
        r = subprocess.run(["git", "apply", d + "/patch.diff"], cwd=s, capture_output=True, text=True)
        if r.returncode != 0:
            return k, "PATCH-DOES-NOT-APPLY", []
        env = dict(os.environ, VERIF_REPO=s)
        p = subprocess.run([os.path.join(HERE, "check"), pid, "--tier", tier, "--noevidence"], cwd=HERE, env=env,
                           capture_output=True, text=True, timeout=3400)
        mechs = [l.split("mechanism=")[1].split(" (")[0] for l in p.stdout.splitlines() if "mechanism=" in l]
        return k, {1: "CAUGHT", 0: "MISSED", 2: "INCONCLUSIVE"}.get(p.returncode, str(p.returncode)), mechs[:3]
    finally:
        shutil.rmtree(s, ignore_errors=True)


def main():
    ap = argparse.ArgumentParser()
    ap.add_argument("-j", type=int, default=6)
    ap.add_argument("--tier", default="quick")
    a = ap.parse_args()
    dirs = sorted(glob.glob(os.path.join(HERE, "seeded", "C*-*")))
    bad = 0
    with cf.ThreadPoolExecutor(a.j) as ex:
        for k, st, mechs in ex.map(lambda d: one(d, a.tier), dirs):
            if st != "CAUGHT":
                bad += 1
            print(f"{st:12} {k:8} {mechs}", flush=True)
    print(f"{len(dirs)} seeded changes, {bad} not caught")


if __name__ == "__main__":
    main()
