#!/bin/bash
# usage: tools/sweep.sh <tier> <seed> [ids...]   -- runs checks without touching evidence/, prints one line per check
tier=$1; seed=$2; shift 2
ids=${@:-C01 C02 C03 C04 C05 C06 C07 C08 C09 C10 C11 C12 C13 C14 C15 C16 C17 C18 C19 C20}
cd "$(dirname "$0")/.."
for c in $ids; do
  out=$(VERIF_SEED=$seed ./check $c --tier $tier --noevidence 2>&1)
  rc=$?
  echo "rc=$rc $(echo "$out" | tail -1 | cut -c1-110)"
  if [ $rc -ne 0 ]; then echo "$out" | head -12 | cut -c1-300; fi
done
